//go:build verif

package eval

// C24 harness: group fee requirement and proposer payout.
//
//	ff  SignedTxn.FeeFactor on real transactions (note / program / argument sizes around the
//	    free allowances, heartbeat discount variants, PQ signature surcharges, per-byte
//	    surcharge 0 / 100 / huge)
//	cg  CheckGroupFees on boundary-heavy (paid, usage, minFee)
//	gf  SummarizeFees + CheckGroupFees on real groups whose fees sum to the requirement -1/0/+1
//	    (tag d), and the same through BlockEvaluator.TransactionGroup on a test ledger (tag e)
//	po  proposerPayout / validateForPayouts / performPayout on a hand-built evaluator with
//	    sink balances around the minimum and claimed payouts around the bound (tag d), and
//	    eval.Eval (validate) of generated blocks whose ProposerPayout / FeesCollected /
//	    Proposer were manipulated (tag e)

import (
	"context"
	"errors"
	"fmt"
	"io"
	"math/big"
	"regexp"
	"strconv"
	"strings"
	"testing"

	"github.com/algorand/go-algorand/config"
	"github.com/algorand/go-algorand/crypto"
	"github.com/algorand/go-algorand/data/basics"
	"github.com/algorand/go-algorand/data/bookkeeping"
	"github.com/algorand/go-algorand/data/committee"
	"github.com/algorand/go-algorand/data/transactions"
	"github.com/algorand/go-algorand/data/transactions/verify"
	"github.com/algorand/go-algorand/ledger/ledgercore"
	ledgertesting "github.com/algorand/go-algorand/ledger/testing"
	"github.com/algorand/go-algorand/logging"
	"github.com/algorand/go-algorand/protocol"
)

// ---- a scripted LedgerForCowBase for hand-built evaluators ----
type vc24Ledger struct {
	accts map[basics.Address]ledgercore.AccountData
	gh    crypto.Digest
}

func (l *vc24Ledger) BlockHdr(basics.Round) (bookkeeping.BlockHeader, error) {
	return bookkeeping.BlockHeader{}, errors.New("no header")
}
func (l *vc24Ledger) GenesisHash() crypto.Digest { return l.gh }
func (l *vc24Ledger) CheckDup(config.ConsensusParams, basics.Round, basics.Round, basics.Round, transactions.Txid, ledgercore.Txlease) error {
	return nil
}
func (l *vc24Ledger) LookupWithoutRewards(r basics.Round, a basics.Address) (ledgercore.AccountData, basics.Round, error) {
	return l.accts[a], r, nil
}
func (l *vc24Ledger) LookupAgreement(basics.Round, basics.Address) (basics.OnlineAccountData, error) {
	return basics.OnlineAccountData{}, nil
}
func (l *vc24Ledger) GetKnockOfflineCandidates(basics.Round, config.ConsensusParams) (map[basics.Address]basics.OnlineAccountData, error) {
	return nil, nil
}
func (l *vc24Ledger) LookupAsset(basics.Round, basics.Address, basics.AssetIndex) (ledgercore.AssetResource, error) {
	return ledgercore.AssetResource{}, nil
}
func (l *vc24Ledger) LookupApplication(basics.Round, basics.Address, basics.AppIndex) (ledgercore.AppResource, error) {
	return ledgercore.AppResource{}, nil
}
func (l *vc24Ledger) LookupKv(basics.Round, string) ([]byte, error) { return nil, nil }
func (l *vc24Ledger) GetCreatorForRound(basics.Round, basics.CreatableIndex, basics.CreatableType) (basics.Address, bool, error) {
	return basics.Address{}, false, nil
}
func (l *vc24Ledger) GetStateProofVerificationContext(basics.Round) (*ledgercore.StateProofVerificationContext, error) {
	return nil, errors.New("none")
}
func (l *vc24Ledger) OnlineCirculation(basics.Round, basics.Round) (basics.MicroAlgos, error) {
	return basics.MicroAlgos{}, nil
}

var vc24Less = regexp.MustCompile(`is less than (\S+) \(`)
var vc24Allowed = regexp.MustCompile(`proposal wants \d+ payout, (\d+) is allowed`)

// inverse of MicroAlgos.String (which is lossless)
func vc24ParseAlgos(s string) (uint64, bool) {
	mul := uint64(1)
	digits := 0
	switch {
	case strings.HasSuffix(s, "uA"):
		s = strings.TrimSuffix(s, "uA")
	case strings.HasSuffix(s, "mA"):
		s, mul, digits = strings.TrimSuffix(s, "mA"), 1000, 3
	case strings.HasSuffix(s, "A"):
		s, mul, digits = strings.TrimSuffix(s, "A"), 1000000, 6
	default:
		return 0, false
	}
	whole, frac, hasFrac := strings.Cut(s, ".")
	w, err := strconv.ParseUint(whole, 10, 64)
	if err != nil {
		return 0, false
	}
	var f uint64
	if hasFrac {
		if s == "0.0" {
			return 0, true
		}
		if len(frac) != digits {
			return 0, false
		}
		f, err = strconv.ParseUint(frac, 10, 64)
		if err != nil {
			return 0, false
		}
	}
	return w*mul + f, true
}

func vc24GroupRes(t *testing.T, err error) []interface{} {
	if err == nil {
		return vL(vSym("ok"))
	}
	var ge *ledgercore.TxGroupMalformedError
	if !errors.As(err, &ge) || ge.Reason != ledgercore.TxGroupErrorReasonInvalidFee {
		t.Fatalf("unexpected group error: %v", err)
	}
	if strings.Contains(ge.Msg, "required fee overflow") {
		return vL(vSym("overflow"))
	}
	m := vc24Less.FindStringSubmatch(ge.Msg)
	if m == nil {
		t.Fatalf("unparsable fee error: %q", ge.Msg)
	}
	n, ok := vc24ParseAlgos(m[1])
	if !ok {
		t.Fatalf("unparsable amount %q in %q", m[1], ge.Msg)
	}
	return vL(vSym("toolow"), n)
}

// ---- fee factor cases ----
type vc24Tx struct {
	kind               int // 0 other(pay) 1 stateproof 2 heartbeat 3 appcall
	note               int
	hbFields, hbDisc   bool
	grouped            bool
	sig                int // 0 none, 1 PQ f1, 2 PQ f2, 3 lsig.PQ f1, 4 unknown PQ scheme
	approval, clear    int
	args               []int
	lsigLen            int
	fee                uint64
	sender             basics.Address
	receiver           basics.Address
	fv, lv             basics.Round
	gh                 crypto.Digest
	noteFill           byte
}

func (d vc24Tx) build() transactions.SignedTxn {
	var tx transactions.Transaction
	tx.Sender = d.sender
	tx.Fee = basics.MicroAlgos{Raw: d.fee}
	tx.FirstValid, tx.LastValid = d.fv, d.lv
	tx.GenesisHash = d.gh
	if d.note > 0 {
		tx.Note = make([]byte, d.note)
		for i := range tx.Note {
			tx.Note[i] = d.noteFill
		}
	}
	if d.grouped {
		tx.Group = crypto.Digest{1}
	}
	switch d.kind {
	case 0:
		tx.Type = protocol.PaymentTx
		tx.Receiver = d.receiver
	case 1:
		tx.Type = protocol.StateProofTx
	case 2:
		tx.Type = protocol.HeartbeatTx
		if d.hbFields {
			tx.HeartbeatTxnFields = &transactions.HeartbeatTxnFields{HbChallengeDiscount: d.hbDisc}
		}
	case 3:
		tx.Type = protocol.ApplicationCallTx
		tx.ApprovalProgram = make([]byte, d.approval)
		tx.ClearStateProgram = make([]byte, d.clear)
		for _, a := range d.args {
			tx.ApplicationArgs = append(tx.ApplicationArgs, make([]byte, a))
		}
	}
	stx := transactions.SignedTxn{Txn: tx}
	switch d.sig {
	case 1:
		stx.PQsig = transactions.PQSig{Scheme: protocol.PQSchemeFalcon1024, PublicKey: []byte{1}}
	case 2:
		stx.PQsig = transactions.PQSig{Scheme: protocol.PQSchemeFalcon512, PublicKey: []byte{1}}
	case 3:
		stx.Lsig.PQsig = transactions.PQSig{Scheme: protocol.PQSchemeFalcon1024, PublicKey: []byte{1}}
	case 4:
		stx.PQsig = transactions.PQSig{Scheme: protocol.PQScheme{'z', 'z'}, PublicKey: []byte{1}}
	}
	if d.lsigLen > 0 {
		stx.Lsig.Logic = make([]byte, d.lsigLen)
	}
	return stx
}

func (d vc24Tx) sigc() uint64 {
	switch d.sig {
	case 1, 3:
		return 2000000
	case 2:
		return 1000000
	}
	return 0
}

func vc24Around(r *vRand, limit int) int {
	switch r.Intn(6) {
	case 0:
		return 0
	case 1:
		return r.Intn(limit + 1)
	case 2:
		return limit + r.Intn(3) - 1
	case 3:
		return limit + 1 + r.Intn(50)
	case 4:
		return limit + r.Intn(3000)
	default:
		return limit
	}
}

func vc24Proto(r *vRand) config.ConsensusParams {
	p := config.Consensus[protocol.ConsensusFuture]
	switch r.Intn(8) {
	case 0:
		p.PerByteTxnSurcharge = 0
	case 1:
		p.PerByteTxnSurcharge = 1
	case 2:
		p.PerByteTxnSurcharge = basics.Micros(uint64(1) << uint(40+r.Intn(24)))
	case 3:
		p.PerByteTxnSurcharge = basics.Micros(^uint64(0) - uint64(r.Intn(3)))
	}
	return p
}

func vc24RandTx(r *vRand, p config.ConsensusParams) vc24Tx {
	d := vc24Tx{kind: 0}
	switch r.Intn(10) {
	case 0:
		d.kind = 1
	case 1, 2:
		d.kind = 2
		d.hbFields = r.Intn(4) != 0
		d.hbDisc = r.Bool()
	case 3, 4, 5:
		d.kind = 3
		basic := p.MaxAppTotalProgramLen * (1 + p.MaxExtraAppProgramPages)
		tot := vc24Around(r, basic)
		d.approval = r.Intn(tot + 1)
		d.clear = tot - d.approval
		na := r.Intn(4)
		rest := vc24Around(r, p.MaxAppTotalArgLen)
		for i := 0; i < na; i++ {
			a := rest
			if i < na-1 {
				a = r.Intn(rest + 1)
			}
			d.args = append(d.args, a)
			rest -= a
		}
	}
	if r.Intn(3) != 0 {
		d.note = vc24Around(r, p.MaxTxnNoteBytes)
	}
	d.grouped = r.Bool()
	if r.Intn(4) == 0 {
		d.sig = 1 + r.Intn(4)
	}
	return d
}

func vc24FFCase(out *vOut, d vc24Tx, p config.ConsensusParams) uint64 {
	stx := d.build()
	f := uint64(stx.FeeFactor(p))
	argBytes := 0
	for _, a := range d.args {
		argBytes += a
	}
	out.Case(vSym("ff"), d.kind, uint64(p.PerByteTxnSurcharge), d.note, p.MaxTxnNoteBytes,
		d.kind == 2 && d.hbFields && d.hbDisc, !d.grouped, d.sigc(),
		d.approval+d.clear, p.MaxAppTotalProgramLen*(1+p.MaxExtraAppProgramPages), argBytes, p.MaxAppTotalArgLen, f)
	return f
}

// ceil(minFee*usage/1e6) as a big integer (generator side only: used to aim fees at the boundary)
func vc24Req(minFee, usage uint64) *big.Int {
	x := new(big.Int).Mul(new(big.Int).SetUint64(minFee), new(big.Int).SetUint64(usage))
	x.Add(x, big.NewInt(999999))
	return x.Div(x, big.NewInt(1000000))
}

func vc24SplitFees(r *vRand, total *big.Int, n int) []uint64 {
	fees := make([]uint64, n)
	if total.Sign() < 0 {
		return fees
	}
	max := new(big.Int).SetUint64(^uint64(0))
	rest := new(big.Int).Set(total)
	for i := 0; i < n; i++ {
		var f *big.Int
		if i == n-1 {
			f = new(big.Int).Set(rest)
		} else {
			switch r.Intn(3) {
			case 0:
				f = big.NewInt(0)
			case 1:
				f = new(big.Int).Div(rest, big.NewInt(int64(1+r.Intn(4))))
			default:
				f = new(big.Int).Set(rest)
			}
		}
		if f.Cmp(max) > 0 {
			f = new(big.Int).Set(max)
		}
		fees[i] = f.Uint64()
		rest.Sub(rest, f)
	}
	return fees
}

func TestVerifC24(t *testing.T) {
	logging.Base().SetOutput(io.Discard) // recovered logging.Panicf calls would flood the log
	out := vOpen("cases_c24.txt")
	defer out.Close()
	rnd := vNewRand(24)
	n := vEnvInt("VERIF_C24_N", 3000)
	st := map[string]int{}

	// ---- ff ----
	for i := 0; i < n; i++ {
		p := vc24Proto(rnd)
		vc24FFCase(out, vc24RandTx(rnd, p), p)
		st["ff"]++
	}

	// ---- cg: bare CheckGroupFees ----
	for i := 0; i < n; i++ {
		paid, usage, minFee := rnd.Edge64(), rnd.Edge64(), rnd.Edge64()
		switch i % 4 {
		case 0: // realistic magnitudes, paid at the boundary
			minFee = uint64(1 + rnd.Intn(5000))
			usage = uint64(rnd.Intn(40000000))
			req := vc24Req(minFee, usage)
			paid = req.Uint64() + uint64(rnd.Intn(3)) - 1
		case 1: // requirement around 2^64
			usage = rnd.Edge64() | 1
			q := new(big.Int).Lsh(big.NewInt(1), 64)
			q.Mul(q, big.NewInt(1000000)).Div(q, new(big.Int).SetUint64(usage))
			if q.IsUint64() {
				minFee = q.Uint64() + uint64(rnd.Intn(5)) - 2
			}
			paid = ^uint64(0) - uint64(rnd.Intn(2))
		case 2:
			req := vc24Req(minFee, usage)
			if req.IsUint64() {
				paid = req.Uint64() + uint64(rnd.Intn(3)) - 1
			}
		}
		err := CheckGroupFees(basics.MicroAlgos{Raw: paid}, basics.Micros(usage), basics.MicroAlgos{Raw: minFee})
		out.Case(vSym("cg"), paid, usage, minFee, vc24GroupRes(t, err))
		st["cg"]++
	}

	// ---- gf direct: real groups through SummarizeFees + CheckGroupFees ----
	for i := 0; i < n; i++ {
		p := vc24Proto(rnd)
		switch rnd.Intn(5) {
		case 0:
			p.MinTxnFee = 0
		case 1:
			p.MinTxnFee = rnd.Edge64()
		case 2:
			p.MinTxnFee = uint64(1 + rnd.Intn(3))
		}
		if rnd.Intn(4) == 0 {
			p.LogicSigMaxSize = uint64(rnd.Intn(1200))
		}
		k := 1 + rnd.Intn(16)
		ds := make([]vc24Tx, k)
		group := make([]transactions.SignedTxnWithAD, k)
		factors := make([]uint64, k)
		sum := new(big.Int)
		prog := 0
		for j := range ds {
			ds[j] = vc24RandTx(rnd, p)
			if rnd.Intn(5) == 0 {
				ds[j].lsigLen = vc24Around(rnd, int(p.LogicSigMaxSize))
			}
			prog += ds[j].lsigLen
			factors[j] = uint64(ds[j].build().FeeFactor(p))
			sum.Add(sum, new(big.Int).SetUint64(factors[j]))
		}
		extra := prog - k*int(p.LogicSigMaxSize)
		if extra > 0 {
			sum.Add(sum, new(big.Int).Mul(new(big.Int).SetUint64(uint64(p.PerByteTxnSurcharge)), big.NewInt(int64(extra))))
		}
		if !sum.IsUint64() {
			sum.SetUint64(^uint64(0))
		}
		req := vc24Req(p.MinTxnFee, sum.Uint64())
		target := new(big.Int).Add(req, big.NewInt(int64(rnd.Intn(3)-1)))
		if rnd.Intn(10) == 0 {
			target.Add(target, new(big.Int).SetUint64(rnd.Edge64()))
		}
		fees := vc24SplitFees(rnd, target, k)
		if rnd.Intn(12) == 0 { // saturating sums of fees
			for j := range fees {
				fees[j] = ^uint64(0) - uint64(rnd.Intn(3))
			}
		}
		txs := make([]interface{}, k)
		for j := range ds {
			ds[j].fee = fees[j]
			group[j] = ds[j].build().WithAD()
			txs[j] = vL(factors[j], fees[j], ds[j].lsigLen)
		}
		usage, paid := transactions.SummarizeFees(group, p)
		err := CheckGroupFees(paid, usage, p.MinFee())
		out.Case(vSym("gf"), vSym("d"), p.MinTxnFee, uint64(p.PerByteTxnSurcharge), p.LogicSigMaxSize, txs,
			vL(uint64(usage), paid.Raw, vc24GroupRes(t, err)))
		st["gf_direct"]++
	}

	// ---- po direct ----
	for i := 0; i < 2*n; i++ {
		vc24PayoutDirect(t, out, rnd, st)
	}

	// ---- through the evaluator ----
	ng := vEnvInt("VERIF_C24_EVAL_GROUPS", 150)
	vc24EvalGroups(t, out, rnd, ng, st)
	nb := vEnvInt("VERIF_C24_EVAL_BLOCKS", 6)
	for i := 0; i < nb; i++ {
		vc24EvalPayout(t, out, rnd, st)
	}
	stats := map[string]interface{}{}
	for k, v := range st {
		stats[k] = v
	}
	vStats(stats)
}

func vc24Status(r *vRand) basics.Status {
	if r.Intn(4) == 0 {
		return basics.Status(r.Intn(2))
	}
	return basics.NotParticipating
}

func vc24PayoutDirect(t *testing.T, out *vOut, r *vRand, st map[string]int) {
	proto := config.Consensus[protocol.ConsensusFuture]
	proto.Payouts.Enabled = r.Intn(8) != 0
	switch r.Intn(6) {
	case 0:
		proto.Payouts.Percent = uint64(r.Intn(101))
	case 1:
		proto.Payouts.Percent = 100
	case 2:
		proto.Payouts.Percent = uint64(101 + r.Intn(400)) // misconfiguration: Divvy may panic
	}
	if r.Intn(10) == 0 {
		proto.RewardUnit = uint64(1 + r.Intn(3))
	}
	sink := basics.Address{0x51}
	proposer := basics.Address{0x77}
	var sinkAcct ledgercore.AccountData
	sinkAcct.Status = vc24Status(r)
	sinkAcct.TotalAssets = uint64(r.Intn(3)) % 2 * uint64(r.Intn(3))
	minBal := sinkAcct.MinBalance(&proto).Raw
	switch r.Intn(5) {
	case 0:
		sinkAcct.MicroAlgos.Raw = minBal + uint64(r.Intn(5)) - 2
	case 1:
		sinkAcct.MicroAlgos.Raw = minBal + uint64(r.Intn(3000000))
	case 2:
		sinkAcct.MicroAlgos.Raw = r.Edge64()
	case 3:
		sinkAcct.MicroAlgos.Raw = uint64(r.Intn(int(minBal) + 1))
	default:
		sinkAcct.MicroAlgos.Raw = minBal + uint64(r.Intn(20000))
	}
	level := uint64(0)
	if r.Intn(3) == 0 {
		level = uint64(r.Intn(50))
		if r.Intn(10) == 0 {
			level = r.Edge64()
		}
		sinkAcct.RewardsBase = uint64(r.Intn(int(level%60) + 2))
	}
	fees := uint64(r.Intn(200000))
	if r.Intn(6) == 0 {
		fees = r.Edge64()
	}
	bonus := uint64(r.Intn(3)) * uint64(r.Intn(100000))
	if r.Intn(12) == 0 {
		bonus = r.Edge64()
	}
	stateFees := fees
	if r.Intn(10) == 0 {
		stateFees = fees + uint64(r.Intn(3)) - 1
	}
	var propAcct ledgercore.AccountData
	propClosed := r.Intn(8) == 0
	if !propClosed {
		propAcct.MicroAlgos.Raw = uint64(r.Intn(5000000))
		if r.Intn(15) == 0 {
			propAcct.MicroAlgos.Raw = ^uint64(0) - uint64(r.Intn(100000))
		}
		propAcct.Status = basics.Status(r.Intn(3))
		propAcct.RewardsBase = uint64(r.Intn(3))
		if propAcct == (ledgercore.AccountData{}) {
			propAcct.MicroAlgos.Raw = 1
		}
	}
	propZero := r.Intn(8) == 0
	generate := r.Intn(6) == 0
	if !proto.Payouts.Enabled && r.Intn(4) != 0 { // reach the later checks of the disabled branch
		fees, stateFees = 0, 0
		propZero = r.Intn(3) != 0
	}

	led := &vc24Ledger{accts: map[basics.Address]ledgercore.AccountData{sink: sinkAcct, proposer: propAcct}}
	mk := func(payout uint64) *BlockEvaluator {
		var hdr bookkeeping.BlockHeader
		hdr.Round = 100
		hdr.FeeSink = sink
		hdr.RewardsLevel = level
		hdr.Bonus = basics.MicroAlgos{Raw: bonus}
		hdr.FeesCollected = basics.MicroAlgos{Raw: fees}
		hdr.ProposerPayout = basics.MicroAlgos{Raw: payout}
		if !propZero {
			hdr.Proposer = proposer
		}
		base := makeRoundCowBase(led, 99, 0, 0, proto)
		ev := &BlockEvaluator{validate: true, generate: generate, proto: proto, l: nil}
		ev.block = bookkeeping.Block{BlockHeader: hdr}
		ev.state = makeRoundCowState(base, hdr, proto, 0, ledgercore.AccountTotals{}, 0)
		ev.state.feesCollected = basics.MicroAlgos{Raw: stateFees}
		return ev
	}

	// what the code itself would allow (used only to aim the claimed payout at the boundary)
	var ppObs []interface{}
	allowed := uint64(0)
	func() {
		defer func() {
			if x := recover(); x != nil {
				ppObs = vL(vSym("panic"))
			}
		}()
		a, err := mk(0).proposerPayout()
		if err != nil {
			if !strings.Contains(err.Error(), "payout overflowed adding bonus") {
				t.Fatalf("unexpected proposerPayout error %v", err)
			}
			ppObs = vL(vSym("bonus_overflow"))
			return
		}
		allowed = a.Raw
		ppObs = vL(vSym("ok"), a.Raw)
	}()
	var payout uint64
	switch r.Intn(7) {
	case 0:
		payout = 0
	case 1, 2:
		payout = allowed + uint64(r.Intn(3)) - 1
	case 3:
		payout = uint64(r.Intn(int(allowed%(1<<40)) + 1))
	case 4:
		payout = allowed + uint64(r.Intn(100000))
	case 5:
		payout = r.Edge64()
	default:
		payout = allowed
	}

	ev := mk(payout)
	var vpObs, pfObs []interface{}
	func() {
		defer func() {
			if x := recover(); x != nil {
				vpObs = vL(vSym("panic"))
			}
		}()
		vpObs = vc24ValidateRes(t, ev.validateForPayouts())
	}()
	ev2 := mk(payout)
	func() {
		defer func() {
			if x := recover(); x != nil {
				pfObs = vL(vSym("panic"))
			}
		}()
		err := ev2.performPayout()
		var oe *ledgercore.OverspendError
		switch {
		case err == nil:
			_, moved := ev2.state.mods.Accts.GetData(sink)
			if !moved {
				pfObs = vL(vSym("noop"))
			} else {
				s, _ := ev2.state.lookup(sink)
				p, _ := ev2.state.lookup(proposer)
				pfObs = vL(vSym("moved"), s.MicroAlgos.Raw, p.MicroAlgos.Raw)
			}
		case errors.As(err, &oe):
			pfObs = vL(vSym("overspend"))
		case strings.Contains(err.Error(), "balance overflow"):
			pfObs = vL(vSym("overflow"))
		default:
			t.Fatalf("unexpected performPayout error %v", err)
		}
	}()
	out.Case(vSym("po"), vSym("d"), proto.Payouts.Enabled, proto.Payouts.Percent, fees, stateFees, bonus,
		sinkAcct.MicroAlgos.Raw, minBal, payout, propZero, generate, propClosed,
		proto.RewardUnit, level, uint64(sinkAcct.Status), sinkAcct.RewardsBase,
		uint64(propAcct.Status), propAcct.MicroAlgos.Raw, propAcct.RewardsBase,
		vL(ppObs, vpObs, pfObs))
	st["po_direct"]++
	st["po_direct_v_"+fmt.Sprint(vpObs[0])]++
}

func vc24ValidateRes(t *testing.T, err error) []interface{} {
	if err == nil {
		return vL(vSym("ok"))
	}
	m := err.Error()
	switch {
	case strings.Contains(m, "feesCollected") && strings.Contains(m, "present when payouts disabled"):
		return vL(vSym("fees_when_disabled"))
	case strings.Contains(m, "proposer") && strings.Contains(m, "present when payouts disabled"):
		return vL(vSym("proposer_when_disabled"))
	case strings.Contains(m, "payout") && strings.Contains(m, "present when payouts disabled"):
		return vL(vSym("payout_when_disabled"))
	case strings.Contains(m, "fees collected wrong"):
		return vL(vSym("fees_wrong"))
	case strings.Contains(m, "payout overflowed adding bonus"):
		return vL(vSym("bonus_overflow"))
	case strings.Contains(m, "proposer missing when payouts enabled"):
		return vL(vSym("proposer_missing"))
	case strings.Contains(m, "is closed but expects payout"):
		return vL(vSym("proposer_closed"))
	}
	if g := vc24Allowed.FindStringSubmatch(m); g != nil {
		a, _ := strconv.ParseUint(g[1], 10, 64)
		return vL(vSym("too_much"), a)
	}
	// anything else: reported as its own class (never produced by the model => flagged)
	return vL(vSym("other"))
}

// ---- real BlockEvaluator.TransactionGroup with fees around the requirement ----
func vc24EvalGroups(t *testing.T, out *vOut, r *vRand, n int, st map[string]int) {
	genesis, addrs, keys := ledgertesting.GenesisWithProto(10, protocol.ConsensusFuture)
	l := newTestLedger(t, bookkeeping.GenesisBalances{Balances: genesis.Accounts, FeeSink: testSinkAddr, RewardsPool: testPoolAddr})
	ev := l.nextBlock(t)
	p := ev.proto
	uniq := 0
	for i := 0; i < n; i++ {
		if i%40 == 39 { // next block
			l.endBlock(t, ev)
			ev = l.nextBlock(t)
		}
		k := 1 + r.Intn(4)
		if r.Intn(6) == 0 {
			k = 1 + r.Intn(16)
		}
		ds := make([]vc24Tx, k)
		sum := uint64(0)
		factors := make([]uint64, k)
		for j := range ds {
			uniq++
			ds[j] = vc24Tx{kind: 0, sender: addrs[r.Intn(len(addrs))], receiver: addrs[r.Intn(len(addrs))],
				fv: ev.Round().SubSaturate(2), lv: ev.Round() + 10, gh: l.GenesisHash(), noteFill: byte(uniq), grouped: k > 1}
			ds[j].note = 12 + uniq%50
			if r.Intn(3) == 0 {
				ds[j].note = vc24Around(r, p.MaxTxnNoteBytes)
				if ds[j].note < 12 {
					ds[j].note = 12
				}
			}
			factors[j] = uint64(ds[j].build().FeeFactor(p))
			sum += factors[j]
		}
		req := vc24Req(p.MinTxnFee, sum)
		target := new(big.Int).Add(req, big.NewInt(int64(r.Intn(3)-1)))
		if r.Intn(8) == 0 {
			target.Add(target, big.NewInt(int64(r.Intn(5000))))
		}
		fees := vc24SplitFees(r, target, k)
		stxs := make([]transactions.SignedTxn, k)
		var grp transactions.TxGroup
		for j := range ds {
			ds[j].fee = fees[j]
			ds[j].grouped = false
			stx := ds[j].build()
			// make the note unique so that txids never repeat
			copy(stx.Txn.Note, []byte(fmt.Sprintf("%012d", i*64+j)))
			stxs[j] = stx
			grp.TxGroupHashes = append(grp.TxGroupHashes, crypto.Digest(stx.Txn.ID()))
		}
		group := make([]transactions.SignedTxnWithAD, k)
		txs := make([]interface{}, k)
		for j := range stxs {
			if k > 1 {
				stxs[j].Txn.Group = crypto.HashObj(grp)
			}
			for a := range addrs {
				if addrs[a] == stxs[j].Txn.Sender {
					stxs[j] = stxs[j].Txn.Sign(keys[a])
				}
			}
			group[j] = stxs[j].WithAD()
			txs[j] = vL(uint64(stxs[j].FeeFactor(p)), fees[j], 0)
		}
		usage, paid := transactions.SummarizeFees(group, p)
		before := len(ev.block.Payset)
		err := ev.TransactionGroup(group...)
		res := vc24GroupRes(t, err)
		if (err == nil) != (len(ev.block.Payset) == before+k) {
			t.Fatalf("payset length does not reflect the group result")
		}
		out.Case(vSym("gf"), vSym("e"), p.MinTxnFee, uint64(p.PerByteTxnSurcharge), p.LogicSigMaxSize, txs,
			vL(uint64(usage), paid.Raw, res))
		st["gf_eval"]++
		st["gf_eval_"+fmt.Sprint(res[0])]++
	}
}

// ---- eval.Eval (validate) of blocks with manipulated payout header fields ----
func vc24EvalPayout(t *testing.T, out *vOut, r *vRand, st map[string]int) {
	genesis, addrs, keys := ledgertesting.GenesisWithProto(10, protocol.ConsensusFuture)
	proto := config.Consensus[protocol.ConsensusFuture]
	sinkData := genesis.Accounts[testSinkAddr]
	switch r.Intn(4) {
	case 0:
		sinkData.MicroAlgos.Raw = proto.MinBalance + uint64(r.Intn(3000))
	case 1:
		sinkData.MicroAlgos.Raw = proto.MinBalance + uint64(r.Intn(20000000))
	case 2:
		sinkData.MicroAlgos.Raw = uint64(r.Intn(int(proto.MinBalance)))
	}
	genesis.Accounts[testSinkAddr] = sinkData
	l := newTestLedger(t, bookkeeping.GenesisBalances{Balances: genesis.Accounts, FeeSink: testSinkAddr, RewardsPool: testPoolAddr})
	ev := l.nextBlock(t)
	for i := 0; i < r.Intn(3); i++ {
		l.endBlock(t, ev)
		ev = l.nextBlock(t)
	}
	prev := l.Latest()
	sinkBefore := l.lookup(t, testSinkAddr).MicroAlgos.Raw
	nt := r.Intn(6)
	fees := uint64(0)
	for i := 0; i < nt; i++ {
		fee := proto.MinTxnFee + uint64(r.Intn(3))*uint64(r.Intn(4000))
		d := vc24Tx{kind: 0, sender: addrs[i], receiver: addrs[(i+1)%len(addrs)], fee: fee, note: 8, noteFill: byte(i),
			fv: ev.Round().SubSaturate(1), lv: ev.Round() + 5, gh: l.GenesisHash()}
		stx := d.build().Txn.Sign(keys[i])
		if err := ev.TransactionGroup(stx.WithAD()); err != nil {
			t.Fatalf("payment rejected: %v", err)
		}
		fees += fee
	}
	ub, err := ev.GenerateBlock(nil)
	if err != nil {
		t.Fatalf("GenerateBlock: %v", err)
	}
	proposer := addrs[9]
	var seed committee.Seed
	good := ub.UnfinishedBlock().WithProposer(seed, proposer, true)
	if good.FeesCollected.Raw != fees {
		t.Fatalf("FeesCollected %d, expected %d", good.FeesCollected.Raw, fees)
	}
	allowed := good.ProposerPayout().Raw
	sinkBal := sinkBefore + fees
	minBal := proto.MinBalance
	propAcct := l.lookup(t, proposer)
	_ = prev
	variants := vEnvInt("VERIF_C24_EVAL_VARIANTS", 14)
	for v := 0; v < variants; v++ {
		blk := good
		payout := allowed
		hdrFees := fees
		propZero := false
		switch v {
		case 0:
		case 1:
			payout = allowed + 1
		case 2:
			payout = 0
		case 3:
			if allowed > 0 {
				payout = allowed - 1
			}
		case 4:
			hdrFees = fees + 1
		case 5:
			propZero = true
		default:
			switch r.Intn(4) {
			case 0:
				payout = allowed + uint64(r.Intn(1000))
			case 1:
				payout = uint64(r.Intn(int(allowed%(1<<40)) + 1))
			case 2:
				payout = allowed + 1 + uint64(r.Intn(3))
			default:
				payout = r.Edge64()
			}
		}
		blk.BlockHeader.ProposerPayout = basics.MicroAlgos{Raw: payout}
		blk.BlockHeader.FeesCollected = basics.MicroAlgos{Raw: hdrFees}
		if propZero {
			blk.BlockHeader.Proposer = basics.Address{}
		}
		delta, err := Eval(context.Background(), l, blk, true, verify.GetMockedCache(true), nil, nil)
		vp := vc24ValidateRes(t, err)
		pf := vL(vSym("na"))
		var oe *ledgercore.OverspendError
		if err != nil && errors.As(err, &oe) {
			// validateForPayouts accepted, then performPayout could not pay
			vp, pf = vL(vSym("ok")), vL(vSym("overspend"))
		}
		if err == nil {
			s, ok := delta.Accts.GetData(testSinkAddr)
			p, okp := delta.Accts.GetData(proposer)
			switch {
			case payout == 0 || propZero:
				pf = vL(vSym("noop"))
				if ok && s.MicroAlgos.Raw != sinkBal {
					t.Fatalf("sink changed without a payout")
				}
			case ok && okp:
				pf = vL(vSym("moved"), s.MicroAlgos.Raw, p.MicroAlgos.Raw)
			default:
				t.Fatalf("payout %d accepted but sink/proposer not in the delta", payout)
			}
		}
		out.Case(vSym("po"), vSym("e"), true, proto.Payouts.Percent, hdrFees, fees, good.Bonus.Raw,
			sinkBal, minBal, payout, propZero, false, false,
			proto.RewardUnit, blk.RewardsLevel, uint64(basics.NotParticipating), 0,
			uint64(propAcct.Status), propAcct.MicroAlgos.Raw, propAcct.RewardsBase,
			vL(vL(vSym("na")), vp, pf))
		st["po_eval"]++
		st["po_eval_"+fmt.Sprint(vp[0])]++
	}
}
