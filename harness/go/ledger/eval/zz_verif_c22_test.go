//go:build verif

package eval

// C22 harness (package eval): the same kind of histories of asset transactions as the
// package-apply harness, but submitted one transaction group at a time to a REAL BlockEvaluator
// (TransactionGroup: well-formedness, child cow, apply, min-balance, commit or discard); a whole
// history goes into one block (the package's evalTestLedger drops untouched resources when a
// block is added, so it cannot carry asset state across blocks).  After every transaction the
// asset state is read back through the evaluator's roundCowState (cow_creatables.go /
// getCreator), so that what a FAILED transaction leaves behind in the block under construction
// is observed as well; the finished block is then re-evaluated with eval.Eval.
// About half of the steps are GROUPS of 2..4 transactions on one asset that mix holding changes
// (transfers to / from the creator, clawback, freeze, opt-in, close-out) with reconfigurations and
// destroy attempts in random order: all members run in one child cow on top of the block's cow
// (the layering of cow_creatables.go: putAssetParams / putAssetHolding copy the sibling delta
// from the cache), and the state is observed after the group commits or is discarded.  At the
// end a second evaluator replays all committed groups and its state is observed as well.

import (
	"context"
	"errors"
	"fmt"
	"sort"
	"strings"
	"testing"

	"github.com/algorand/go-algorand/crypto"
	"github.com/algorand/go-algorand/data/basics"
	"github.com/algorand/go-algorand/data/bookkeeping"
	"github.com/algorand/go-algorand/data/transactions"
	"github.com/algorand/go-algorand/ledger/ledgercore"
	ledgertesting "github.com/algorand/go-algorand/ledger/testing"
	"github.com/algorand/go-algorand/protocol"
)

func vc22Class(err error) int {
	if err == nil {
		return 0
	}
	var abe *ledgercore.AssetBalanceError
	if errors.As(err, &abe) {
		return 11
	}
	s := err.Error()
	pats := []struct {
		p string
		c int
	}{
		{"underflow on subtracting", 11},
		{"does not exist or has been deleted", 1},
		{"not found in account ", 2},
		{"already found asset with index", 3},
		{"too many assets in account", 4},
		{"should be issued by the manager", 5},
		{"holds no assets", 6},
		{"created no assets", 7},
		{"creator is holding only", 8},
		{"receiver error: must optin", 12},
		{"missing from", 9},
		{"asset frozen in recipient", 13},
		{"frozen in", 10},
		{"overflow on adding", 14},
		{"clawback not allowed", 15},
		{"cannot close asset by clawback", 16},
		{"cannot close asset holding on account", 17},
		{"cannot close asset ID in allocating account", 18},
		{"not present in account", 19},
		{"after closing", 20},
		{"freeze not allowed", 21},
		{"asset not found in account", 22},
	}
	for _, p := range pats {
		if strings.Contains(s, p.p) {
			return p.c
		}
	}
	return 99
}

type vc22Hold struct {
	x, a, amt uint64
	frozen    bool
}

type vc22World struct {
	hold     []vc22Hold
	par      map[uint64]basics.AssetParams // by asset
	creators map[uint64]uint64
}

type vc22Env struct {
	t         *testing.T
	l         *evalTestLedger
	ev        *BlockEvaluator
	addrs     []basics.Address
	num       map[basics.Address]uint64
	assets    []uint64 // every asset id ever created
	uniq      int
	committed [][]transactions.SignedTxn // the committed groups, for the second evaluator
}

func (e *vc22Env) addr(i uint64) basics.Address {
	if i == 0 || int(i) > len(e.addrs) {
		return basics.Address{}
	}
	return e.addrs[i-1]
}

// read the asset state through the evaluator's cow
func (e *vc22Env) observe() (vc22World, []interface{}) {
	w := vc22World{par: map[uint64]basics.AssetParams{}, creators: map[uint64]uint64{}}
	cs := e.ev.state
	hl, pl, cl, al := vL(), vL(), vL(), vL()
	type prow struct {
		c, a uint64
		p    basics.AssetParams
	}
	var prows []prow
	for i := range e.addrs {
		x := uint64(i + 1)
		for _, a := range e.assets {
			h, ok, err := cs.GetAssetHolding(e.addrs[i], basics.AssetIndex(a))
			if err != nil {
				e.t.Fatalf("GetAssetHolding: %v", err)
			}
			if ok {
				w.hold = append(w.hold, vc22Hold{x, a, h.Amount, h.Frozen})
				hl = append(hl, vL(x, a, h.Amount, h.Frozen))
			}
			p, ok, err := cs.GetAssetParams(e.addrs[i], basics.AssetIndex(a))
			if err != nil {
				e.t.Fatalf("GetAssetParams: %v", err)
			}
			if ok {
				prows = append(prows, prow{x, a, p})
			}
		}
		rec, err := cs.lookup(e.addrs[i])
		if err != nil {
			e.t.Fatalf("lookup: %v", err)
		}
		if rec.TotalAssets != 0 || rec.TotalAssetParams != 0 {
			al = append(al, vL(x, rec.TotalAssets, rec.TotalAssetParams))
		}
	}
	sort.Slice(prows, func(i, j int) bool {
		return prows[i].c < prows[j].c || (prows[i].c == prows[j].c && prows[i].a < prows[j].a)
	})
	for _, r := range prows {
		p := r.p
		pl = append(pl, vL(r.c, r.a, p.Total, p.DefaultFrozen, e.num[p.Manager], e.num[p.Reserve], e.num[p.Freeze], e.num[p.Clawback], uint64(p.Decimals)))
		w.par[r.a] = p
	}
	for _, a := range e.assets {
		c, ok, err := cs.getCreator(basics.CreatableIndex(a), basics.AssetCreatable)
		if err != nil {
			e.t.Fatalf("getCreator: %v", err)
		}
		if ok {
			cl = append(cl, vL(a, e.num[c]))
			w.creators[a] = e.num[c]
		}
	}
	return w, vL(hl, pl, cl, al)
}

type vc22Op struct {
	kind                               string
	s, a, amt, r, asnd, ct, x          uint64
	tot                                uint64
	df, f                              bool
	manager, reserve, freeze, clawback uint64
	meta                               uint64
}

func (o vc22Op) term() []interface{} {
	switch o.kind {
	case "cfg":
		return vL(vSym("cfg"), o.s, o.a, o.tot, o.df, o.manager, o.reserve, o.freeze, o.clawback, o.meta)
	case "xfer":
		return vL(vSym("xfer"), o.s, o.a, o.amt, o.r, o.asnd, o.ct)
	case "frz":
		return vL(vSym("frz"), o.s, o.a, o.x, o.f)
	}
	return vL(vSym("tick"))
}

func (e *vc22Env) build(o vc22Op) transactions.Transaction {
	e.uniq++
	tx := transactions.Transaction{Header: transactions.Header{
		Sender: e.addr(o.s), Fee: basics.MicroAlgos{Raw: 5000}, FirstValid: e.ev.Round(), LastValid: e.ev.Round() + 5,
		GenesisHash: e.l.GenesisHash(), Note: []byte(fmt.Sprintf("c22-%09d", e.uniq))}}
	switch o.kind {
	case "cfg":
		tx.Type = protocol.AssetConfigTx
		tx.AssetConfigTxnFields = transactions.AssetConfigTxnFields{ConfigAsset: basics.AssetIndex(o.a), AssetParams: basics.AssetParams{
			Total: o.tot, DefaultFrozen: o.df, Manager: e.addr(o.manager), Reserve: e.addr(o.reserve),
			Freeze: e.addr(o.freeze), Clawback: e.addr(o.clawback), Decimals: uint32(o.meta)}}
	case "xfer":
		tx.Type = protocol.AssetTransferTx
		tx.AssetTransferTxnFields = transactions.AssetTransferTxnFields{XferAsset: basics.AssetIndex(o.a), AssetAmount: o.amt,
			AssetReceiver: e.addr(o.r), AssetSender: e.addr(o.asnd), AssetCloseTo: e.addr(o.ct)}
	case "frz":
		tx.Type = protocol.AssetFreezeTx
		tx.AssetFreezeTxnFields = transactions.AssetFreezeTxnFields{FreezeAsset: basics.AssetIndex(o.a), FreezeAccount: e.addr(o.x), AssetFrozen: o.f}
	default: // tick: a payment to self
		tx.Type = protocol.PaymentTx
		tx.PaymentTxnFields = transactions.PaymentTxnFields{Receiver: e.addr(o.s)}
	}
	return tx
}

func (e *vc22Env) submit(o vc22Op) (int, uint64) {
	tx := e.build(o)
	stxn := transactions.SignedTxn{Txn: tx}
	before := len(e.ev.block.Payset)
	err := e.ev.TestTransactionGroup([]transactions.SignedTxn{stxn})
	if err != nil {
		e.t.Fatalf("harness generated a malformed transaction (%v): %v", o.term(), err)
	}
	err = e.ev.TransactionGroup(stxn.WithAD())
	if (err == nil) != (len(e.ev.block.Payset) == before+1) {
		e.t.Fatalf("payset length does not reflect the result")
	}
	if err != nil {
		c := vc22Class(err)
		if c == 99 {
			e.t.Fatalf("unclassified error for %v: %v", o.term(), err)
		}
		return c, 0
	}
	e.committed = append(e.committed, []transactions.SignedTxn{stxn})
	ad := e.ev.block.Payset[before].ApplyData
	switch o.kind {
	case "cfg":
		if o.a == 0 {
			e.assets = append(e.assets, uint64(ad.ConfigAsset))
		}
		return 0, uint64(ad.ConfigAsset)
	case "xfer":
		return 0, ad.AssetClosingAmount
	}
	return 0, 0
}

// a whole group through TransactionGroup: one child cow for all members, committed only if
// every member succeeds.  Returns (error class, index of the failing member, ApplyData values).
func (e *vc22Env) submitGroup(ops []vc22Op) (int, int, []interface{}) {
	stxns := make([]transactions.SignedTxn, len(ops))
	var grp transactions.TxGroup
	for i, o := range ops {
		stxns[i] = transactions.SignedTxn{Txn: e.build(o)}
		grp.TxGroupHashes = append(grp.TxGroupHashes, crypto.Digest(stxns[i].Txn.ID()))
	}
	gid := crypto.HashObj(grp)
	group := make([]transactions.SignedTxnWithAD, len(ops))
	for i := range stxns {
		stxns[i].Txn.Group = gid
		group[i] = stxns[i].WithAD()
	}
	before := len(e.ev.block.Payset)
	if err := e.ev.TestTransactionGroup(stxns); err != nil {
		e.t.Fatalf("harness generated a malformed group: %v", err)
	}
	err := e.ev.TransactionGroup(group...)
	if (err == nil) != (len(e.ev.block.Payset) == before+len(ops)) {
		e.t.Fatalf("payset length does not reflect the group result")
	}
	if err != nil {
		c := vc22Class(err)
		if c == 99 {
			e.t.Fatalf("unclassified group error: %v", err)
		}
		k := -1
		for i := range stxns {
			if strings.Contains(err.Error(), stxns[i].Txn.ID().String()) {
				k = i
			}
		}
		if k < 0 {
			e.t.Fatalf("cannot tell which member failed: %v", err)
		}
		return c, k, vL()
	}
	e.committed = append(e.committed, stxns)
	vs := vL()
	for i, o := range ops {
		ad := e.ev.block.Payset[before+i].ApplyData
		switch o.kind {
		case "cfg":
			vs = append(vs, uint64(ad.ConfigAsset))
		case "xfer":
			vs = append(vs, ad.AssetClosingAmount)
		default:
			vs = append(vs, 0)
		}
	}
	return 0, 0, vs
}

// 2..4 transactions on ONE existing asset, mixing holding changes (transfers to / from the
// creator, clawback, freeze, opt-in, close-out) with reconfigurations and destroy attempts, in
// random order; roles mostly taken from the parameters as they are BEFORE the group
func vc22GenGroup(r *vRand, w vc22World, e *vc22Env, naccts int) []vc22Op {
	var live []uint64
	for a := range w.creators {
		live = append(live, a)
	}
	if len(live) == 0 {
		return nil
	}
	sort.Slice(live, func(i, j int) bool { return live[i] < live[j] })
	a := live[r.Intn(len(live))]
	for try := 0; try < 4 && w.par[a].Manager.IsZero(); try++ { // prefer assets that can still be reconfigured
		a = live[r.Intn(len(live))]
	}
	p := w.par[a]
	creator := w.creators[a]
	// the roles as they will be after the members generated so far (if those commit)
	curManager, curFreeze, curClawback := e.num[p.Manager], e.num[p.Freeze], e.num[p.Clawback]
	cur := func(x uint64) uint64 {
		if x != 0 && r.Intn(8) != 0 {
			return x
		}
		return acct0(r, naccts)
	}
	acct := func() uint64 { return uint64(1 + r.Intn(naccts)) }
	role := func() uint64 {
		if r.Intn(4) == 0 {
			return 0
		}
		return acct()
	}
	amtOf := map[uint64]uint64{}
	var holders []uint64
	for _, h := range w.hold {
		if h.a == a {
			amtOf[h.x] = h.amt
			holders = append(holders, h.x)
		}
	}
	holder := func() uint64 {
		if len(holders) == 0 || r.Intn(8) == 0 {
			return acct()
		}
		return holders[r.Intn(len(holders))]
	}
	part := func(x uint64) uint64 {
		h := amtOf[x]
		if h == 0 || r.Intn(8) == 0 {
			return uint64(r.Intn(3))
		}
		if r.Intn(4) == 0 {
			return h
		}
		return 1 + r.U64()%h
	}
	holdingOp := func() vc22Op {
		switch r.Intn(7) {
		case 0, 1: // creator -> holder
			return vc22Op{kind: "xfer", s: creator, a: a, amt: part(creator), r: holder()}
		case 2: // holder -> creator
			s := holder()
			return vc22Op{kind: "xfer", s: s, a: a, amt: part(s), r: creator}
		case 3: // clawback (often from or to the creator)
			src, dst := holder(), holder()
			if r.Bool() {
				src = creator
			} else {
				dst = creator
			}
			return vc22Op{kind: "xfer", s: cur(curClawback), a: a, amt: part(src), r: dst, asnd: src}
		case 4:
			return vc22Op{kind: "frz", s: cur(curFreeze), a: a, x: holder(), f: r.Bool()}
		case 5:
			s := acct()
			return vc22Op{kind: "xfer", s: s, a: a, r: s}
		default: // close out (to the creator or another holder)
			s := holder()
			ct := creator
			if r.Intn(3) == 0 {
				ct = holder()
			}
			return vc22Op{kind: "xfer", s: s, a: a, r: holder(), ct: ct}
		}
	}
	cfgOp := func(last bool) vc22Op {
		if last && r.Intn(3) == 0 || r.Intn(12) == 0 { // destroy attempt (mostly as the last member)
			return vc22Op{kind: "cfg", s: cur(curManager), a: a}
		}
		o := vc22Op{kind: "cfg", s: cur(curManager), a: a, manager: role(), reserve: role(), freeze: role(), clawback: role()}
		if r.Intn(3) != 0 && curManager != 0 {
			o.manager = curManager
		}
		if o.manager == 0 && o.reserve == 0 && o.freeze == 0 && o.clawback == 0 {
			o.manager = acct()
		}
		if o.s == curManager && curManager != 0 { // will commit: the roles change for the later members
			curManager = o.manager
			if curFreeze != 0 {
				curFreeze = o.freeze
			}
			if curClawback != 0 {
				curClawback = o.clawback
			}
		}
		return o
	}
	k := 2 + r.Intn(3)
	ops := make([]vc22Op, k)
	// at least one of each kind, at random positions
	hi, ci := r.Intn(k), r.Intn(k-1)
	if ci >= hi {
		ci++
	}
	for i := range ops {
		if i == hi || i != ci && r.Bool() {
			ops[i] = holdingOp()
		} else {
			ops[i] = cfgOp(i == k-1)
		}
	}
	return ops
}

func acct0(r *vRand, naccts int) uint64 { return uint64(1 + r.Intn(naccts)) }

func vc22Gen(r *vRand, w vc22World, assets []uint64, naccts int) vc22Op {
	acct := func() uint64 { return uint64(1 + r.Intn(naccts)) }
	any := func() uint64 {
		if r.Intn(25) == 0 {
			// an account without asset state; never the zero address: the package's
			// evalTestLedger answers "no such account" for addresses outside its genesis
			return uint64(1 + r.Intn(naccts+1))
		}
		return acct()
	}
	role := func() uint64 {
		if r.Intn(4) == 0 {
			return 0
		}
		return acct()
	}
	var a uint64 = 1 + uint64(r.Intn(3))
	if len(assets) > 0 && r.Intn(25) != 0 {
		a = assets[r.Intn(len(assets))]
	}
	var holders []uint64
	amtOf := map[uint64]uint64{}
	for _, h := range w.hold {
		if h.a == a {
			holders = append(holders, h.x)
			amtOf[h.x] = h.amt
		}
	}
	holder := func() uint64 {
		if len(holders) == 0 || r.Intn(10) == 0 {
			return acct()
		}
		return holders[r.Intn(len(holders))]
	}
	amount := func(x uint64) uint64 {
		h := amtOf[x]
		switch r.Intn(8) {
		case 0:
			return h
		case 1:
			return h + 1
		case 2:
			return 0
		case 3:
			return r.Edge64()
		default:
			if h == 0 {
				return uint64(r.Intn(3))
			}
			return 1 + r.U64()%h
		}
	}
	k := r.Intn(100)
	switch {
	case k < 12 || len(w.creators) == 0 && k < 60:
		tot := []uint64{0, 1, 10, 1000, ^uint64(0), r.Edge64()}[r.Intn(6)]
		return vc22Op{kind: "cfg", s: acct(), tot: tot, df: r.Intn(4) == 0, manager: role(), reserve: role(), freeze: role(),
			clawback: role(), meta: uint64(r.Intn(2) * (1 + r.Intn(5)))}
	case k < 30:
		s := acct()
		return vc22Op{kind: "xfer", s: s, a: a, r: s}
	case k < 58:
		s := holder()
		rc := holder()
		if r.Intn(25) == 0 {
			rc = any()
		}
		return vc22Op{kind: "xfer", s: s, a: a, amt: amount(s), r: rc}
	case k < 68:
		src := holder()
		return vc22Op{kind: "xfer", s: acct(), a: a, amt: amount(src), r: holder(), asnd: src}
	case k < 80:
		s := holder()
		var ct uint64
		switch r.Intn(4) {
		case 0:
			ct = w.creators[a]
			if ct == 0 {
				ct = acct()
			}
		case 1:
			ct = acct()
		default:
			ct = holder()
		}
		amt := uint64(0)
		if r.Intn(3) == 0 {
			amt = amount(s)
		}
		return vc22Op{kind: "xfer", s: s, a: a, amt: amt, r: holder(), ct: ct}
	case k < 90:
		return vc22Op{kind: "frz", s: acct(), a: a, x: holder(), f: r.Intn(3) != 0}
	case k < 94:
		o := vc22Op{kind: "cfg", s: acct(), a: a, manager: role(), reserve: role(), freeze: role(), clawback: role()}
		if o.manager == 0 && o.reserve == 0 && o.freeze == 0 && o.clawback == 0 {
			o.manager = acct() // all-zero parameters would be a destroy
		}
		return o
	case k < 98:
		return vc22Op{kind: "cfg", s: acct(), a: a}
	}
	return vc22Op{kind: "tick", s: acct()}
}

func TestVerifC22Eval(t *testing.T) {
	out := vOpen("cases_c22_eval.txt")
	defer out.Close()
	n := vEnvInt("VERIF_C22_EVAL_N", 40)
	nops := vEnvInt("VERIF_C22_EVAL_OPS", 30)
	rnd := vNewRand(2222)
	codes := map[string]interface{}{}
	cnt := map[int]int{}
	ngroups := map[string]int{}
	groupPct := vEnvInt("VERIF_C22_EVAL_GROUPS", 45)
	for i := 0; i < n; i++ {
		genesis, addrs, _ := ledgertesting.GenesisWithProto(6, protocol.ConsensusFuture)
		l := newTestLedger(t, bookkeeping.GenesisBalances{Balances: genesis.Accounts, FeeSink: testSinkAddr, RewardsPool: testPoolAddr})
		naccts := 3 + rnd.Intn(2)
		e := &vc22Env{t: t, l: l, addrs: addrs[:5], num: map[basics.Address]uint64{}}
		for j, a := range e.addrs {
			e.num[a] = uint64(j + 1)
		}
		e.ev = l.nextBlock(t)
		ctr0 := e.ev.state.Counter()
		ops, obs := vL(), vL()
		w, _ := e.observe()
		length := 5 + rnd.Intn(nops)
		for j := 0; j < length; j++ {
			if rnd.Intn(100) < groupPct {
				if g := vc22GenGroup(rnd, w, e, naccts); g != nil {
					code, k, vs := e.submitGroup(g)
					cnt[code]++
					ngroups[fmt.Sprintf("groups_%d_ok_%v", len(g), code == 0)]++
					var d []interface{}
					w, d = e.observe()
					gt := vL(vSym("grp"))
					for _, o := range g {
						gt = append(gt, o.term())
					}
					ops = append(ops, gt)
					obs = append(obs, vL(code, k, vs, d[0], d[1], d[2], d[3]))
					continue
				}
			}
			o := vc22Gen(rnd, w, e.assets, naccts)
			// roles are chosen from the observed parameters
			if p, ok := w.par[o.a]; ok && rnd.Intn(8) != 0 {
				switch {
				case o.kind == "frz" && !p.Freeze.IsZero():
					o.s = e.num[p.Freeze]
				case o.kind == "cfg" && o.a != 0 && !p.Manager.IsZero():
					o.s = e.num[p.Manager]
				case o.kind == "xfer" && o.asnd != 0 && !p.Clawback.IsZero():
					o.s = e.num[p.Clawback]
				}
			}
			code, v := e.submit(o)
			cnt[code]++
			var d []interface{}
			w, d = e.observe()
			ops = append(ops, o.term())
			obs = append(obs, vL(code, v, d[0], d[1], d[2], d[3]))
		}
		// a SECOND evaluator on the same base replays the committed groups; its state is observed too
		ev1 := e.ev
		e.ev = l.nextBlock(t)
		for _, g := range e.committed {
			ads := make([]transactions.SignedTxnWithAD, len(g))
			for x := range g {
				ads[x] = g[x].WithAD()
			}
			if err := e.ev.TransactionGroup(ads...); err != nil {
				t.Fatalf("second evaluator refuses a committed group: %v", err)
			}
		}
		_, d2 := e.observe()
		ops = append(ops, vL(vSym("fin")))
		obs = append(obs, vL(d2[0], d2[1], d2[2], d2[3]))
		e.ev = ev1
		vb := l.endBlock(t, e.ev)
		// the generated block must re-evaluate (signatures are not part of this harness)
		delete(l.blocks, vb.Block().Round())
		delete(l.roundBalances, vb.Block().Round())
		if _, err := Eval(context.Background(), l, vb.Block(), false, nil, nil, nil); err != nil {
			t.Fatalf("generated block does not re-evaluate: %v", err)
		}
		out.Case(vSym("c22"), 0, ctr0, ops, obs)
	}
	for k, v := range cnt {
		codes[fmt.Sprintf("class_%02d", k)] = v
	}
	gs := map[string]interface{}{}
	for k, v := range ngroups {
		gs[k] = v
	}
	vStats(map[string]interface{}{"histories": n, "result_classes(00=ok)": codes, "groups": gs})
}
