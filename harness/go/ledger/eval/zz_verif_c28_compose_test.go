//go:build verif

package eval

// C28, composed cases (kind vc): the SAME signed group goes through verify.TxnGroup and through
// BlockEvaluator.TransactionGroup (validate mode) on a ledger in which the sender is in a known
// rekeying situation; the oracle is evaluated on the composition: accepted by both => every
// member is authorised by the CURRENT authorizer of its sender.
//
// Exhaustive matrix (every run):
//   sender identity     plain key | multisig address | contract (program hash) | Falcon PQ address
// x sender situation    not rekeyed | rekeyed to a plain key | to a multisig address | to a contract
//                       address | to a PQ address | rekeyed away and back to itself
// x who authorises      the current authorizer | the sender's own identity (the previous
//                       authorizer) | a foreign identity of the authorizer's kind
// x authorization       every flavour that identity can produce: signature, LogicSig delegated by
//                       signature; multisig, LogicSig delegated by Msig / LMsig; escrow LogicSig;
//                       PQ signature, LogicSig delegated by the PQ key
// x AuthAddr            what the ledger says | what the authorising identity is | empty | foreign
// plus groups whose first member rekeys the sender and whose second member is authorised by the
// new / the previous authorizer.

import (
	"errors"
	"fmt"
	"strings"
	"testing"

	"github.com/algorand/go-algorand/config"
	"github.com/algorand/go-algorand/crypto"
	"github.com/algorand/go-algorand/data/basics"
	"github.com/algorand/go-algorand/data/bookkeeping"
	"github.com/algorand/go-algorand/data/transactions"
	"github.com/algorand/go-algorand/data/transactions/logic"
	"github.com/algorand/go-algorand/data/transactions/verify"
	"github.com/algorand/go-algorand/protocol"
)

const (
	vc28cKey = iota
	vc28cMsig
	vc28cContract
	vc28cPQ
)

var vc28cKindNames = []string{"key", "msig", "contract", "pq"}
var vc28cSituations = []string{"self", "to_key", "to_msig", "to_contract", "to_pq", "back_to_self"}

type vc28cIdent struct {
	kind  int
	addr  basics.Address
	sk    *crypto.SignatureSecrets
	mkeys []*crypto.SignatureSecrets
	thr   uint8
	prog  []byte
	fal   *crypto.FalconSigner
	pq    transactions.PQSig
}

func (id *vc28cIdent) flavours() []string {
	switch id.kind {
	case vc28cKey:
		return []string{"sig", "lsig_sig"}
	case vc28cMsig:
		return []string{"msig", "lsig_msig", "lsig_lmsig"}
	case vc28cContract:
		return []string{"escrow"}
	default:
		return []string{"pq", "lsig_pq"}
	}
}

type vc28cU struct {
	t        *testing.T
	r        *vRand
	l        *evalTestLedger
	senders  [4][6]*vc28cIdent
	targets  [4]*vc28cIdent
	foreign  [4]*vc28cIdent
	deleg    []byte // approving program used for delegated LogicSigs
	progN    int
	vname    protocol.ConsensusVersion
	vproto   config.ConsensusParams
	uniq     uint64
	st       map[string]int
	helper   *vc29U
	feeSink  basics.Address
	rewardsP basics.Address
}

func (u *vc28cU) newKey() *crypto.SignatureSecrets {
	var seed crypto.Seed
	copy(seed[:], u.r.Bytes(32))
	return crypto.GenerateSignatureSecrets(seed)
}

func (u *vc28cU) newIdent(kind int) *vc28cIdent {
	id := &vc28cIdent{kind: kind}
	switch kind {
	case vc28cKey:
		id.sk = u.newKey()
		id.addr = basics.Address(id.sk.SignatureVerifier)
	case vc28cMsig:
		n := 2 + u.r.Intn(2)
		pks := make([]crypto.PublicKey, n)
		for i := 0; i < n; i++ {
			id.mkeys = append(id.mkeys, u.newKey())
			pks[i] = id.mkeys[i].SignatureVerifier
		}
		id.thr = uint8(1 + u.r.Intn(n))
		a, err := crypto.MultisigAddrGen(1, id.thr, pks)
		if err != nil {
			u.t.Fatal(err)
		}
		id.addr = basics.Address(a)
	case vc28cContract:
		u.progN++
		ops, err := logic.AssembleStringWithVersion(fmt.Sprintf("int %d", 100+u.progN), 2)
		if err != nil {
			u.t.Fatal(err)
		}
		id.prog = ops.Program
		id.addr = basics.Address(logic.HashProgram(id.prog))
	case vc28cPQ:
		var seed crypto.FalconSeed
		copy(seed[:], u.r.Bytes(len(seed)))
		signer, err := crypto.GenerateFalconSigner(seed)
		if err != nil {
			u.t.Fatal(err)
		}
		pk := append([]byte{}, signer.PublicKey[:]...)
		salt, addr, err := basics.CanonicalPQAddressSalt(protocol.PQSchemeFalcon1024, pk)
		if err != nil {
			u.t.Fatal(err)
		}
		id.fal, id.addr = &signer, addr
		id.pq = transactions.PQSig{Scheme: protocol.PQSchemeFalcon1024, Salt: salt, PublicKey: pk}
	}
	return id
}

func vc28cNewUniverse(t *testing.T, r *vRand) *vc28cU {
	u := &vc28cU{t: t, r: r, st: map[string]int{}, helper: &vc29U{t: t}}
	ops, err := logic.AssembleStringWithVersion("int 1", 2)
	if err != nil {
		t.Fatal(err)
	}
	u.deleg = ops.Program
	accts := map[basics.Address]basics.AccountData{}
	for k := 0; k < 4; k++ {
		u.targets[k] = u.newIdent(k)
		u.foreign[k] = u.newIdent(k)
		for a := 0; a < 6; a++ {
			u.senders[k][a] = u.newIdent(k)
			accts[u.senders[k][a].addr] = basics.AccountData{MicroAlgos: basics.MicroAlgos{Raw: 1000000000000000}}
		}
	}
	accts[testPoolAddr] = basics.AccountData{MicroAlgos: basics.MicroAlgos{Raw: 1000000000000000}, Status: basics.NotParticipating}
	accts[testSinkAddr] = basics.AccountData{MicroAlgos: basics.MicroAlgos{Raw: 1000000000000000}, Status: basics.NotParticipating}
	u.l = newTestLedger(t, bookkeeping.GenesisBalances{Balances: accts, FeeSink: testSinkAddr, RewardsPool: testPoolAddr})
	// the rekeying situations are established in block 1
	ev := u.l.nextBlock(t)
	for k := 0; k < 4; k++ {
		for a := 1; a < 6; a++ {
			s := u.senders[k][a]
			to := u.targets[vc28cKey].addr
			if a < 5 {
				to = u.targets[a-1].addr
			}
			tx := u.pay(ev, s.addr)
			tx.RekeyTo = to
			if err := ev.TransactionGroup(transactions.SignedTxn{Txn: tx}.WithAD()); err != nil {
				t.Fatalf("setup rekey: %v", err)
			}
			if a == 5 {
				tx = u.pay(ev, s.addr)
				tx.RekeyTo = s.addr
				if err := ev.TransactionGroup(transactions.SignedTxn{Txn: tx, AuthAddr: to}.WithAD()); err != nil {
					t.Fatalf("setup rekey back: %v", err)
				}
			}
		}
	}
	u.l.endBlock(t, ev)
	// the verifier's parameters: as the ledger's, with Msig delegation allowed as well
	p := config.Consensus[protocol.ConsensusFuture]
	p.LogicSigMsig = true
	u.vname, u.vproto = protocol.ConsensusVersion("verif-c28-compose"), p
	config.Consensus[u.vname] = p
	return u
}

func (u *vc28cU) freshEval() *BlockEvaluator {
	hdr, err := u.l.BlockHdr(u.l.Latest())
	if err != nil {
		u.t.Fatal(err)
	}
	ev, err := StartEvaluator(u.l, bookkeeping.MakeBlock(hdr).BlockHeader, EvaluatorOptions{Validate: true, Generate: true})
	if err != nil {
		u.t.Fatal(err)
	}
	return ev
}

func (u *vc28cU) pay(ev *BlockEvaluator, sender basics.Address) transactions.Transaction {
	u.uniq++
	rnd := ev.Round()
	return transactions.Transaction{
		Type: protocol.PaymentTx,
		Header: transactions.Header{
			Sender:      sender,
			Fee:         basics.MicroAlgos{Raw: 20 * ev.proto.MinTxnFee},
			FirstValid:  rnd.SubSaturate(1),
			LastValid:   rnd + 20,
			Note:        []byte(fmt.Sprintf("c%07d", u.uniq)),
			GenesisHash: u.l.GenesisHash(),
		},
		PaymentTxnFields: transactions.PaymentTxnFields{
			Receiver: u.senders[vc28cKey][0].addr,
			Amount:   basics.MicroAlgos{Raw: 1000 + u.uniq},
		},
	}
}

func (id *vc28cIdent) msigSign(msg crypto.Hashable) crypto.MultisigSig {
	m := crypto.MultisigSig{Version: 1, Threshold: id.thr, Subsigs: make([]crypto.MultisigSubsig, len(id.mkeys))}
	for i, k := range id.mkeys {
		m.Subsigs[i].Key = k.SignatureVerifier
		if i < int(id.thr) {
			m.Subsigs[i].Sig = k.Sign(msg)
		}
	}
	return m
}

func (u *vc28cU) falconSign(id *vc28cIdent, msg crypto.Hashable) transactions.PQSig {
	q := id.pq
	sig, err := id.fal.Sign(msg)
	if err != nil {
		u.t.Fatal(err)
	}
	q.Signature = sig
	return q
}

// the honest authorization of tx by identity id in the given flavour (AuthAddr left empty)
func (u *vc28cU) authorize(id *vc28cIdent, flavour string, tx transactions.Transaction) transactions.SignedTxn {
	stx := transactions.SignedTxn{Txn: tx}
	switch flavour {
	case "sig":
		stx.Sig = id.sk.Sign(tx)
	case "lsig_sig":
		stx.Lsig.Logic = u.deleg
		stx.Lsig.Sig = id.sk.Sign(logic.Program(u.deleg))
	case "msig":
		stx.Msig = id.msigSign(tx)
	case "lsig_msig":
		stx.Lsig.Logic = u.deleg
		stx.Lsig.Msig = id.msigSign(logic.Program(u.deleg))
	case "lsig_lmsig":
		stx.Lsig.Logic = u.deleg
		stx.Lsig.LMsig = id.msigSign(logic.MultisigProgram{Addr: crypto.Digest(id.addr), Program: u.deleg})
	case "escrow":
		stx.Lsig.Logic = id.prog
	case "pq":
		stx.PQsig = u.falconSign(id, tx)
	case "lsig_pq":
		stx.Lsig.Logic = u.deleg
		stx.Lsig.PQsig = u.falconSign(id, logic.PQDelegatedProgram{Addr: id.addr, Program: u.deleg})
	default:
		u.t.Fatalf("flavour %s", flavour)
	}
	return stx
}

// ---- recording (the same conventions as the verify harness) ----
type vc28cTabs struct {
	sigSeen, pqSeen map[string]bool
	sig, pq         []interface{}
	hs              *vc29Hashes
}

func (tb *vc28cTabs) addSig(pk crypto.PublicKey, msg []byte, sig crypto.Signature) {
	k := string(pk[:]) + string(sig[:]) + string(msg)
	if tb.sigSeen[k] {
		return
	}
	tb.sigSeen[k] = true
	tb.sig = append(tb.sig, vL(pk[:], msg, sig[:], crypto.SignatureVerifier(pk).VerifyBytes(msg, sig)))
}

func (tb *vc28cTabs) addMsig(m crypto.MultisigSig, msg []byte) {
	for _, s := range m.Subsigs {
		if !s.Sig.Blank() {
			tb.addSig(s.Key, msg, s.Sig)
		}
	}
	if len(m.Subsigs) > 0 {
		pre := append([]byte("MultisigAddr"), m.Version, m.Threshold)
		for _, s := range m.Subsigs {
			pre = append(pre, s.Key[:]...)
		}
		tb.hs.add(0, pre)
	}
}

type vc28cRaw struct{ rep []byte }

func (h vc28cRaw) ToBeHashed() (protocol.HashID, []byte) { return "", h.rep }

func (tb *vc28cTabs) addPQ(q transactions.PQSig, msg []byte) {
	if q.Blank() {
		return
	}
	pre := append([]byte(protocol.PostQuantumAddress), q.Scheme[:]...)
	pre = append(pre, byte(q.Salt))
	pre = append(pre, q.PublicKey...)
	tb.hs.add(0, pre)
	if q.Scheme != protocol.PQSchemeFalcon1024 || len(q.Signature) == 0 {
		return
	}
	k := string(q.PublicKey) + "|" + string(q.Signature) + "|" + string(msg)
	if tb.pqSeen[k] {
		return
	}
	tb.pqSeen[k] = true
	ok := crypto.VerifyFalcon1024(vc28cRaw{msg}, q.PublicKey, q.Signature) == nil
	tb.pq = append(tb.pq, vL(q.Scheme[:], q.PublicKey, msg, q.Signature, ok))
}

func vc28cMsigT(m crypto.MultisigSig) []interface{} {
	subs := make([]interface{}, len(m.Subsigs))
	for i, s := range m.Subsigs {
		subs[i] = vL(s.Key[:], s.Sig[:])
	}
	return vL(uint64(m.Version), uint64(m.Threshold), m.Subsigs == nil, subs)
}

func vc28cPQT(q transactions.PQSig) []interface{} {
	return vL(q.Scheme[:], uint64(q.Salt), q.PublicKey, q.Signature)
}

// classification of verify.TxnGroup's error (same codes as the verify harness)
func vc28cVerifyObs(t *testing.T, err error) []interface{} {
	if err == nil {
		return vL(vSym("ok"))
	}
	msg := err.Error()
	has := func(s string) bool { return strings.Contains(msg, s) }
	var ge *verify.TxGroupError
	if !errors.As(err, &ge) {
		switch {
		case errors.Is(err, crypto.ErrBatchHasFailedSigs):
			return vL(vSym("err"), vSym("batch"), -1, vSym("batch"))
		case has("panic while verifying transaction group"):
			return vL(vSym("err"), vSym("panic"), -1, vSym("emptygroup"))
		}
		t.Fatalf("unclassified error %T: %v", err, err)
	}
	msub := func() string {
		switch {
		case has("Invalid number of signatures"):
			return "numsig"
		case has("unknown version"):
			return "version"
		case has("Invalid threshold"):
			return "threshold"
		case has("Invalid address"):
			return "address"
		}
		t.Fatalf("unclassified multisig error: %v", err)
		return ""
	}
	pqsub := func() string {
		switch {
		case has("pq signature is blank"):
			return "pq_blank"
		case errors.Is(err, crypto.ErrPQSchemeNotSupported):
			return "pq_notsupported"
		case errors.Is(err, crypto.ErrPQSchemeNotEnabled):
			return "pq_notenabled"
		case has("pq signature authorizer mismatch"):
			return "pq_mismatch"
		case has("pq signature is empty"):
			return "pq_empty"
		}
		return "pq_verify"
	}
	reason, sub := "", ""
	switch ge.Reason {
	case verify.TxGroupErrorReasonNotWellFormed:
		reason = "notwellformed"
		var me *transactions.TxGroupMalformedError
		_, direct := err.(*verify.TxGroupError)
		switch {
		case errors.As(err, &me) && me.Reason == transactions.TxGroupMalformedErrorReasonEmptyGroupID:
			sub = "emptygid"
		case errors.As(err, &me) && me.Reason == transactions.TxGroupMalformedErrorReasonInconsistentGroupID:
			sub = "inconsistent"
		case errors.As(err, &me) && me.Reason == transactions.TxGroupMalformedErrorReasonIncompleteGroup:
			sub = "incomplete"
		case direct && has("LogicSig fields without LogicSig program"):
			sub = "orphan"
		case direct && has("bytes of LogicSigs, more than the available pool"):
			sub = "pool"
		case direct && has("bytes of LogicSig args, more than"):
			sub = "argspool"
		case !direct:
			sub = "wf"
		default:
			t.Fatalf("unclassified group screening error: %v", err)
		}
	case verify.TxGroupErrorReasonGeneric:
		reason = "generic"
		switch {
		case has("nonempty AuthAddr but rekeying is not supported"):
			sub = "norekey"
		case has("AuthAddr must be different from Sender"):
			sub = "authsender"
		default:
			t.Fatalf("unclassified generic error: %v", err)
		}
	case verify.TxGroupErrorReasonHasNoSig:
		reason, sub = "nosig", "nosig"
	case verify.TxGroupErrorReasonSigNotWellFormed:
		reason = "signotwellformed"
		switch {
		case has("signedtxn should have only one type of signature"):
			sub = "multi"
		case has("pq signature not enabled"):
			sub = "pqdisabled"
		case has("pq signature validation failed"):
			sub = pqsub()
		default:
			t.Fatalf("unclassified sig error: %v", err)
		}
	case verify.TxGroupErrorReasonMsigNotWellFormed:
		reason, sub = "msig", msub()
	case verify.TxGroupErrorReasonLogicSigFailed:
		reason = "lsig"
		switch {
		case has("LogicSig not enabled"):
			sub = "disabled"
		case has("LogicSig.Logic empty"):
			sub = "empty"
		case has("LogicSig.Logic too long"):
			sub = "toolong"
		case has("LogicSig.Logic bad version"):
			sub = "badversion"
		case has("LogicSig.Logic version too new"):
			sub = "toonew"
		case has("LogicNot signed and not a Logic-only account"):
			sub = "notsigned"
		case has("LogicSig should have only one type of delegation signature"):
			sub = "multideleg"
		case has("pq delegated logic signature validation failed"):
			sub = pqsub()
		case has("LMsig field not supported"):
			sub = "lmsig_unsupported"
		case has("LogicSig Msig field not supported"):
			sub = "msig_unsupported"
		case has("logic multisig validation failed"):
			sub = "msig_" + msub()
		case errors.Is(err, crypto.ErrBatchHasFailedSigs):
			sub = "batch"
		case has("rejected by logic err="):
			sub = "evalerr"
		case has("rejected by logic"):
			sub = "rejected"
		case has(" invalid : transaction "):
			sub = "evalerr"
		default:
			sub = "check"
		}
	default:
		t.Fatalf("unknown reason %d: %v", ge.Reason, err)
	}
	return vL(vSym("err"), vSym(reason), ge.GroupIndex, vSym(sub))
}

// run one signed group through both halves and write the vc case
func (u *vc28cU) runCase(out *vOut, stxs []transactions.SignedTxn, label string) {
	t := u.t
	ev := u.freshEval()
	proto := u.vproto
	tb := &vc28cTabs{sigSeen: map[string]bool{}, pqSeen: map[string]bool{}, sig: []interface{}{}, pq: []interface{}{}, hs: vc29NewHashes(false)}
	spec := transactions.SpecialAddresses{FeeSink: testSinkAddr, RewardsPool: testPoolAddr}
	ep := logic.NewSigEvalParams(stxs, &proto, logic.NoHeaderLedger{})
	txT := make([]interface{}, len(stxs))
	etxT := make([]interface{}, len(stxs))
	var grp transactions.TxGroup
	seenID := map[transactions.Txid]bool{}
	for i := range stxs {
		s := stxs[i]
		txrep := crypto.HashRep(s.Txn)
		auth := s.Authorizer()
		if !s.Sig.Blank() {
			tb.addSig(crypto.PublicKey(auth), txrep, s.Sig)
		}
		tb.addMsig(s.Msig, txrep)
		tb.addPQ(s.PQsig, txrep)
		progRep := crypto.HashRep(logic.Program(s.Lsig.Logic))
		if !s.Lsig.Sig.Blank() {
			tb.addSig(crypto.PublicKey(auth), progRep, s.Lsig.Sig)
		}
		tb.addMsig(s.Lsig.Msig, progRep)
		tb.addMsig(s.Lsig.LMsig, crypto.HashRep(logic.MultisigProgram{Addr: crypto.Digest(auth), Program: s.Lsig.Logic}))
		tb.addPQ(s.Lsig.PQsig, crypto.HashRep(logic.PQDelegatedProgram{Addr: auth, Program: s.Lsig.Logic}))
		checkOK, evalRes := false, 2
		if s.Lsig.HasProgram() {
			tb.hs.add(0, progRep)
			func() {
				defer func() { recover() }()
				checkOK = logic.CheckSignature(i, ep) == nil
			}()
			if checkOK {
				func() {
					defer func() { recover() }()
					pass, _, err := logic.EvalSignatureFull(i, logic.NewSigEvalParams(stxs, &proto, logic.NoHeaderLedger{}))
					switch {
					case err != nil:
						evalRes = 2
					case pass:
						evalRes = 0
					default:
						evalRes = 1
					}
				}()
			}
		}
		body := vc29Body(s.Txn)
		tb.hs.add(0, append([]byte("TX"), body...))
		ng := s.Txn
		ng.Group = crypto.Digest{}
		grp.TxGroupHashes = append(grp.TxGroupHashes, crypto.Digest(ng.ID()))
		argLens := make([]interface{}, len(s.Lsig.Args))
		for j, a := range s.Lsig.Args {
			argLens[j] = len(a)
		}
		lsigT := vL(s.Lsig.Logic, s.Lsig.Sig[:], vc28cMsigT(s.Lsig.Msig), vc28cMsigT(s.Lsig.LMsig), vc28cPQT(s.Lsig.PQsig),
			argLens, checkOK, evalRes)
		txT[i] = vL(s.Txn.Sender[:], s.AuthAddr[:], false, protocol.Encode(&s.Txn), s.Txn.Group[:], body,
			s.Txn.WellFormed(spec, proto) == nil, vL(), s.Sig[:], vc28cMsigT(s.Msig), lsigT, vc28cPQT(s.PQsig))
		pre := ev.testTransaction(s) == nil && !seenID[s.ID()]
		seenID[s.ID()] = true
		etxT[i] = vL(s.Txn.Sender[:], s.AuthAddr[:], s.Txn.RekeyTo[:], s.Txn.Group[:], body, pre, true)
	}
	tb.hs.add(0, crypto.HashRep(grp))

	hdr := &bookkeeping.BlockHeader{
		RewardsState: bookkeeping.RewardsState{FeeSink: testSinkAddr, RewardsPool: testPoolAddr},
		UpgradeState: bookkeeping.UpgradeState{CurrentProtocol: u.vname},
	}
	_, verr := verify.TxnGroup(stxs, hdr, nil, logic.NoHeaderLedger{})
	obsv := vc28cVerifyObs(t, verr)

	senders := vc29Addrs(stxs)
	stT := make([]interface{}, len(senders))
	for i, a := range senders {
		v := u.helper.authAddr(ev, a)
		stT[i] = vL(a[:], v[:])
	}
	wads := transactions.WrapSignedTxnsWithAD(stxs)
	usage, paid := transactions.SummarizeFees(wads, ev.proto)
	feesOK := CheckGroupFees(paid, usage, ev.proto.MinFee()) == nil
	tr := &vc29Tracer{last: -1}
	ev.Tracer = tr
	eerr := ev.TransactionGroup(wads...)
	ev.Tracer = nil
	var obse []interface{}
	if eerr == nil {
		post := make([]interface{}, len(senders))
		for i, a := range senders {
			v := u.helper.authAddr(ev, a)
			post[i] = vL(a[:], v[:])
		}
		obse = vL(vSym("ok"), post)
	} else {
		c, i := u.helper.evalObs(eerr, tr.last)
		if c == "apply" || c == "wf" {
			t.Fatalf("composed case %s: unexpected %s error: %v", label, c, eerr)
		}
		obse = vL(vSym("err"), vSym(c), i)
	}
	params := vL(proto.SupportRekeying, proto.EnforceAuthAddrSenderDiff, proto.EnablePQSchemeFalcon1024, proto.LogicSigVersion,
		proto.LogicSigMsig, proto.LogicSigLMsig, proto.TxnSizePricingEnabled(), proto.MaxAbsoluteLogicSigProgramSize, proto.LogicSigMaxSize)
	out.Case(vSym("vc"), params, txT, tb.sig, tb.pq, tb.hs.rows, obsv, true, ev.proto.MaxTxGroupSize, stT, feesOK, etxT, obse)
	u.st["vc"]++
	res := "rejected_by_both"
	switch {
	case verr == nil && eerr == nil:
		res = "accepted_by_both"
	case verr == nil:
		res = "verify_only"
	case eerr == nil:
		res = "eval_only"
	}
	u.st["vc_"+res]++
	u.st["vc_"+label+"_"+res]++
}

func TestVerifC28Compose(t *testing.T) {
	r := vNewRand(0xC28C)
	u := vc28cNewUniverse(t, r)
	out := vOpen("cases_vc.txt")
	defer out.Close()
	ev := u.freshEval()
	other := u.foreign[vc28cKey].addr
	for k := 0; k < 4; k++ {
		for a := 0; a < 6; a++ {
			s := u.senders[k][a]
			cur := s
			if a >= 1 && a <= 4 {
				cur = u.targets[a-1]
			}
			ledgerAuth := u.helper.authAddr(ev, s.addr)
			type who struct {
				name string
				id   *vc28cIdent
			}
			whos := []who{{"current", cur}}
			if cur != s {
				whos = append(whos, who{"own", s})
			}
			whos = append(whos, who{"foreign", u.foreign[cur.kind]})
			for _, w := range whos {
				for _, fl := range w.id.flavours() {
					idAddr := w.id.addr
					if idAddr == s.addr {
						idAddr = basics.Address{}
					}
					seen := map[basics.Address]bool{}
					for _, aa := range []basics.Address{ledgerAuth, idAddr, {}, other} {
						if seen[aa] {
							continue
						}
						seen[aa] = true
						stx := u.authorize(w.id, fl, u.pay(ev, s.addr))
						stx.AuthAddr = aa
						mode := "auth_other"
						switch aa {
						case ledgerAuth:
							mode = "auth_ledger"
						case idAddr:
							mode = "auth_signer"
						case basics.Address{}:
							mode = "auth_empty"
						}
						u.st["vc_sender_"+vc28cKindNames[k]+"_"+vc28cSituations[a]]++
						u.st["vc_flavour_"+fl]++
						u.runCase(out, []transactions.SignedTxn{stx}, w.name+"_"+mode)
					}
				}
			}
		}
	}
	// groups: the first member rekeys the (so far not rekeyed) sender, the second one is
	// authorised by the new / the previous authorizer, AuthAddr naming the new one or nothing
	for k := 0; k < 4; k++ {
		s := u.senders[k][0]
		for tk := 0; tk < 4; tk++ {
			nw := u.targets[tk]
			for _, second := range []*vc28cIdent{nw, s} {
				for _, aa := range []basics.Address{nw.addr, {}} {
					tx0 := u.pay(ev, s.addr)
					tx0.RekeyTo = nw.addr
					tx1 := u.pay(ev, s.addr)
					gid := vc29GroupID([]transactions.Transaction{tx0, tx1})
					tx0.Group, tx1.Group = gid, gid
					st0 := u.authorize(s, s.flavours()[0], tx0)
					st1 := u.authorize(second, second.flavours()[0], tx1)
					st1.AuthAddr = aa
					label := "ingroup_new"
					if second == s {
						label = "ingroup_previous"
					}
					u.runCase(out, []transactions.SignedTxn{st0, st1}, label)
				}
			}
		}
	}
	m := map[string]interface{}{}
	for k, v := range u.st {
		m[k] = v
	}
	vStats(m)
}
