//go:build verif

package eval

// C29 harness (group and block commitments) and the evaluator half of C28 (authorizer check).
//
//	tg  BlockEvaluator.TransactionGroup on groups of real signed payments over a test ledger:
//	    rekeyed senders, rekeys inside the group, right / stale / missing / foreign AuthAddr
//	    (TestVerifC28Eval), and member permutations, drops, duplicates, additions, single-field
//	    alterations and group-id alterations after the group id was fixed (TestVerifC29)
//	cg  transactions.CheckTxnGroup on the same groups
//	tt  BlockEvaluator.TestTransactionGroup on the same groups
//	cm  Block.ContentsMatchHeader on generated blocks (flat / Merkle commitment, SHA-256 and
//	    SHA-512 vector commitments on or off) with payset and header mutations
//	pc  BlockHeader.PreCheck with round / branch / branch512 / previous-header mutations
//
// Hashes are recorded: every case lists (kind, preimage, digest) computed with the real hash
// functions for the pre-images that the commitments are made of.

import (
	"crypto/sha256"
	"crypto/sha512"
	"errors"
	"fmt"
	"regexp"
	"strconv"
	"strings"
	"testing"

	"github.com/algorand/go-algorand/agreement"
	"github.com/algorand/go-algorand/config"
	"github.com/algorand/go-algorand/crypto"
	"github.com/algorand/go-algorand/data/basics"
	"github.com/algorand/go-algorand/data/bookkeeping"
	"github.com/algorand/go-algorand/data/committee"
	"github.com/algorand/go-algorand/data/transactions"
	"github.com/algorand/go-algorand/data/transactions/logic"
	"github.com/algorand/go-algorand/ledger/ledgercore"
	"github.com/algorand/go-algorand/protocol"
)

// ---- recorded hashes ----
type vc29Hashes struct {
	seen map[string]bool
	rows []interface{}
	tag  bool // rows carry the hash kind
}

func vc29NewHashes(tag bool) *vc29Hashes {
	return &vc29Hashes{seen: map[string]bool{}, rows: []interface{}{}, tag: tag}
}

func vc29Hash(kind int, pre []byte) []byte {
	switch kind {
	case 0:
		d := sha512.Sum512_256(pre)
		return d[:]
	case 1:
		d := sha256.Sum256(pre)
		return d[:]
	default:
		d := sha512.Sum512(pre)
		return d[:]
	}
}

func (h *vc29Hashes) add(kind int, pre []byte) []byte {
	d := vc29Hash(kind, pre)
	k := fmt.Sprint(kind) + string(pre)
	if !h.seen[k] {
		h.seen[k] = true
		if h.tag {
			h.rows = append(h.rows, vL(kind, pre, d))
		} else {
			h.rows = append(h.rows, vL(pre, d))
		}
	}
	return d
}

// ---- the universe: deterministic keys, a test ledger with some rekeyed accounts ----
type vc29U struct {
	t     *testing.T
	r     *vRand
	l     *evalTestLedger
	ev    *BlockEvaluator
	addrs []basics.Address
	keys  map[basics.Address]*crypto.SignatureSecrets
	proto config.ConsensusParams
	uniq  uint64
	st    map[string]int
	inBlk int
}

type vc29Tracer struct {
	logic.NullEvalTracer
	last int
}

func (tr *vc29Tracer) BeforeTxn(ep *logic.EvalParams, groupIndex int) { tr.last = groupIndex }

func vc29NewUniverse(t *testing.T, r *vRand) *vc29U {
	u := &vc29U{t: t, r: r, keys: map[basics.Address]*crypto.SignatureSecrets{}, st: map[string]int{}}
	accts := map[basics.Address]basics.AccountData{}
	for i := 0; i < 9; i++ {
		var seed crypto.Seed
		copy(seed[:], r.Bytes(32))
		sk := crypto.GenerateSignatureSecrets(seed)
		a := basics.Address(sk.SignatureVerifier)
		u.addrs = append(u.addrs, a)
		u.keys[a] = sk
		accts[a] = basics.AccountData{MicroAlgos: basics.MicroAlgos{Raw: 1000000000000000}}
	}
	accts[testPoolAddr] = basics.AccountData{MicroAlgos: basics.MicroAlgos{Raw: 1000000000000000}, Status: basics.NotParticipating}
	accts[testSinkAddr] = basics.AccountData{MicroAlgos: basics.MicroAlgos{Raw: 1000000000000000}, Status: basics.NotParticipating}
	u.l = newTestLedger(t, bookkeeping.GenesisBalances{Balances: accts, FeeSink: testSinkAddr, RewardsPool: testPoolAddr})
	u.ev = u.l.nextBlock(t)
	u.proto = u.ev.proto
	// rekey a few accounts in a first block
	for i := 0; i < 4; i++ {
		tx := u.pay(u.addrs[i])
		tx.RekeyTo = u.addrs[(i+3)%len(u.addrs)]
		stx := tx.Sign(u.keys[u.addrs[i]])
		if err := u.ev.TransactionGroup(stx.WithAD()); err != nil {
			t.Fatalf("setup rekey: %v", err)
		}
	}
	u.nextBlock()
	return u
}

func (u *vc29U) nextBlock() {
	u.l.endBlock(u.t, u.ev)
	u.ev = u.l.nextBlock(u.t)
	u.inBlk = 0
}

func (u *vc29U) pay(sender basics.Address) transactions.Transaction {
	u.uniq++
	rnd := u.ev.Round()
	return transactions.Transaction{
		Type: protocol.PaymentTx,
		Header: transactions.Header{
			Sender:      sender,
			Fee:         basics.MicroAlgos{Raw: 2 * u.proto.MinTxnFee},
			FirstValid:  rnd.SubSaturate(1),
			LastValid:   rnd + 20,
			Note:        []byte(fmt.Sprintf("%08d", u.uniq)),
			GenesisHash: u.l.GenesisHash(),
		},
		PaymentTxnFields: transactions.PaymentTxnFields{
			Receiver: u.addrs[u.r.Intn(len(u.addrs))],
			Amount:   basics.MicroAlgos{Raw: 1000 + uint64(u.r.Intn(100000))},
		},
	}
}

func (u *vc29U) authAddr(ev *BlockEvaluator, a basics.Address) basics.Address {
	d, err := ev.state.lookup(a)
	if err != nil {
		u.t.Fatalf("lookup: %v", err)
	}
	return d.AuthAddr
}

func vc29GroupID(txs []transactions.Transaction) crypto.Digest {
	var g transactions.TxGroup
	for i := range txs {
		t := txs[i]
		t.Group = crypto.Digest{}
		g.TxGroupHashes = append(g.TxGroupHashes, crypto.Digest(t.ID()))
	}
	return crypto.HashObj(g)
}

var vc29EmptyIdx = regexp.MustCompile(`^transactionGroup: \[(\d+)\] had zero Group`)

// classify a TransactionGroup / TestTransactionGroup error
func (u *vc29U) evalObs(err error, last int) (string, int) {
	var ge *ledgercore.TxGroupMalformedError
	var dead *bookkeeping.TxnDeadError
	var inl *ledgercore.TransactionInLedgerError
	var lease *ledgercore.LeaseInLedgerError
	var wf *ledgercore.TxnNotWellFormedError
	switch {
	case errors.As(err, &ge):
		switch ge.Reason {
		case ledgercore.TxGroupMalformedErrorReasonExceedMaxSize:
			return "toobig", -1
		case ledgercore.TxGroupMalformedErrorReasonInconsistentGroupID:
			return "grp_inconsistent", -1
		case ledgercore.TxGroupMalformedErrorReasonEmptyGroupID:
			m := vc29EmptyIdx.FindStringSubmatch(ge.Msg)
			if m == nil {
				u.t.Fatalf("unparsable: %q", ge.Msg)
			}
			i, _ := strconv.Atoi(m[1])
			return "grp_empty", i
		case ledgercore.TxGroupMalformedErrorReasonIncompleteGroup:
			return "grp_incomplete", -1
		case ledgercore.TxGroupErrorReasonInvalidFee:
			return "fees", -1
		}
	case errors.As(err, &dead), errors.As(err, &inl), errors.As(err, &lease):
		return "pre", last
	case errors.As(err, &wf):
		return "wf", -1
	case strings.Contains(err.Error(), "should have been authorized by"):
		return "auth", last
	case strings.HasPrefix(err.Error(), "transaction "):
		return "apply", last
	}
	u.t.Fatalf("unclassified evaluator error %T: %v", err, err)
	return "", 0
}

type vc29Group struct {
	stxs   []transactions.SignedTxn
	orig   []interface{} // () or (gid (body...)): the committed group this one was mutated from
	muts   []string
	honest bool
}

func vc29Body(tx transactions.Transaction) []byte {
	tx.Group = crypto.Digest{}
	return protocol.Encode(&tx)
}

// a group of payments; authMode: how AuthAddr is chosen; grpMuts: apply group mutations
func (u *vc29U) genGroup(ev *BlockEvaluator, authFocus bool) vc29Group {
	r := u.r
	k := 1 + r.Intn(4)
	switch r.Intn(12) {
	case 0:
		k = 1 + r.Intn(16)
	case 1:
		k = 15 + r.Intn(4) // around MaxTxGroupSize
	}
	g := vc29Group{honest: true}
	txs := make([]transactions.Transaction, k)
	// the authorizer state as the group will see it
	cur := map[basics.Address]basics.Address{}
	curAuth := func(a basics.Address) basics.Address {
		if v, ok := cur[a]; ok {
			return v
		}
		v := u.authAddr(ev, a)
		cur[a] = v
		return v
	}
	auths := make([]basics.Address, k)
	for i := range txs {
		sender := u.addrs[r.Intn(len(u.addrs))]
		if authFocus && r.Intn(2) == 0 {
			sender = u.addrs[r.Intn(5)] // the rekeyed ones and a neighbour
		}
		txs[i] = u.pay(sender)
		auths[i] = curAuth(sender)
		if (authFocus && r.Intn(3) == 0) || r.Intn(12) == 0 {
			switch r.Intn(4) {
			case 0:
				txs[i].RekeyTo = sender // back to itself
			default:
				txs[i].RekeyTo = u.addrs[r.Intn(len(u.addrs))]
			}
			if txs[i].RekeyTo == sender {
				cur[sender] = basics.Address{}
			} else {
				cur[sender] = txs[i].RekeyTo
			}
		}
	}
	if k > 1 || r.Intn(5) == 0 {
		gid := vc29GroupID(txs)
		for i := range txs {
			txs[i].Group = gid
		}
	}
	g.stxs = make([]transactions.SignedTxn, k)
	for i := range txs {
		signer := txs[i].Sender
		if !auths[i].IsZero() {
			signer = auths[i]
		}
		g.stxs[i] = txs[i].Sign(u.keys[signer])
		g.stxs[i].AuthAddr = auths[i]
	}
	if !txs[0].Group.IsZero() {
		bodies := make([]interface{}, k)
		for i := range txs {
			bodies[i] = vc29Body(txs[i])
		}
		g.orig = vL(txs[0].Group[:], bodies)
	} else {
		g.orig = vL()
	}
	// ---- mutations ----
	mut := func(name string) { g.muts = append(g.muts, name); g.honest = false }
	if authFocus {
		if r.Intn(100) < 45 {
			i := r.Intn(len(g.stxs))
			s := &g.stxs[i]
			switch r.Intn(6) {
			case 0:
				if s.AuthAddr.IsZero() {
					break
				}
				s.AuthAddr = basics.Address{}
				mut("auth_cleared")
			case 1:
				s.AuthAddr = u.addrs[r.Intn(len(u.addrs))]
				mut("auth_foreign")
			case 2:
				s.AuthAddr = u.authAddr(ev, s.Txn.Sender) // the authorizer before the group (stale if rekeyed inside)
				mut("auth_pre_group")
			case 3:
				s.AuthAddr = s.Txn.Sender
				mut("auth_is_sender")
			case 4:
				s.AuthAddr[r.Intn(32)] ^= 1
				mut("auth_flip")
			case 5:
				// sender swapped for another account, authorization left as it was
				s.Txn.Sender = u.addrs[r.Intn(len(u.addrs))]
				mut("sender_changed")
			}
		}
		return g
	}
	if r.Intn(100) < 70 {
		n := 1
		if r.Intn(5) == 0 {
			n = 2
		}
		for tries := 0; tries < 40 && len(g.muts) < n; tries++ {
			i := r.Intn(len(g.stxs))
			s := &g.stxs[i]
			switch r.Intn(14) {
			case 0:
				if len(g.stxs) < 2 {
					continue
				}
				j := r.Intn(len(g.stxs))
				if i == j {
					continue
				}
				g.stxs[i], g.stxs[j] = g.stxs[j], g.stxs[i]
				mut("swap")
			case 1:
				if len(g.stxs) < 2 {
					continue
				}
				g.stxs = append(g.stxs[:i:i], g.stxs[i+1:]...)
				mut("drop")
			case 2:
				if len(g.stxs) >= 18 {
					continue
				}
				dup := g.stxs[i]
				g.stxs = append(g.stxs, dup)
				mut("duplicate")
			case 3:
				if len(g.stxs) >= 18 {
					continue
				}
				tx := u.pay(u.addrs[r.Intn(len(u.addrs))])
				tx.Group = s.Txn.Group
				a := u.authAddr(ev, tx.Sender)
				signer := tx.Sender
				if !a.IsZero() {
					signer = a
				}
				ns := tx.Sign(u.keys[signer])
				ns.AuthAddr = a
				pos := r.Intn(len(g.stxs) + 1)
				g.stxs = append(g.stxs[:pos:pos], append([]transactions.SignedTxn{ns}, g.stxs[pos:]...)...)
				mut("add")
			case 4:
				s.Txn.Amount.Raw++
				mut("alter_amount")
			case 5:
				s.Txn.Receiver = u.addrs[r.Intn(len(u.addrs))]
				mut("alter_receiver")
			case 6:
				s.Txn.Note = append([]byte{}, s.Txn.Note...)
				s.Txn.Note[r.Intn(len(s.Txn.Note))] ^= 1
				mut("alter_note")
			case 7:
				s.Txn.Fee.Raw += 1 + uint64(r.Intn(10))
				mut("alter_fee")
			case 8:
				s.Txn.Lease[r.Intn(32)] ^= 1
				mut("alter_lease")
			case 9:
				s.Txn.Group[r.Intn(32)] ^= 1
				mut("gid_flip_one")
			case 10:
				b, bit := r.Intn(32), byte(1<<uint(r.Intn(8)))
				for j := range g.stxs {
					g.stxs[j].Txn.Group[b] ^= bit
				}
				mut("gid_flip_all")
			case 11:
				s.Txn.Group = crypto.Digest{}
				mut("gid_zero_one")
			case 12:
				for j := range g.stxs {
					g.stxs[j].Txn.Group = crypto.Digest{}
				}
				mut("gid_zero_all")
			case 13:
				// the group id of another (valid) group
				other := make([]transactions.Transaction, len(g.stxs))
				for j := range other {
					other[j] = u.pay(g.stxs[j].Txn.Sender)
				}
				gid := vc29GroupID(other)
				for j := range g.stxs {
					g.stxs[j].Txn.Group = gid
				}
				mut("gid_foreign")
			}
		}
	}
	if r.Intn(30) == 0 {
		for j := range g.stxs {
			g.stxs[j].Txn.Fee.Raw = uint64(r.Intn(int(u.proto.MinTxnFee)))
		}
		mut("fees_low")
	}
	return g
}

func vc29Addrs(stxs []transactions.SignedTxn) []basics.Address {
	seen := map[basics.Address]bool{}
	var out []basics.Address
	for _, s := range stxs {
		if !seen[s.Txn.Sender] {
			seen[s.Txn.Sender] = true
			out = append(out, s.Txn.Sender)
		}
	}
	return out
}

// run one group through CheckTxnGroup, TestTransactionGroup and TransactionGroup
func (u *vc29U) runGroup(out *vOut, g vc29Group, validate bool, emitAux bool) {
	t := u.t
	ev := u.ev
	if !validate {
		hdr, err := u.l.BlockHdr(u.l.Latest())
		if err != nil {
			t.Fatal(err)
		}
		ev, err = StartEvaluator(u.l, bookkeeping.MakeBlock(hdr).BlockHeader, EvaluatorOptions{Validate: false, Generate: true})
		if err != nil {
			t.Fatal(err)
		}
	}
	hs := vc29NewHashes(false)
	var grp transactions.TxGroup
	txT := make([]interface{}, len(g.stxs))
	gT := make([]interface{}, len(g.stxs))
	preT := make([]interface{}, len(g.stxs))
	preState := make([]bool, len(g.stxs))
	seenID := map[transactions.Txid]bool{}
	seenLease := map[ledgercore.Txlease]bool{}
	for i, s := range g.stxs {
		body := vc29Body(s.Txn)
		hs.add(0, append([]byte("TX"), body...))
		ng := s.Txn
		ng.Group = crypto.Digest{}
		grp.TxGroupHashes = append(grp.TxGroupHashes, crypto.Digest(ng.ID()))
		// alive + duplicate oracle: the real testTransaction against the state before the group,
		// plus repeats inside the group
		pre := ev.testTransaction(s) == nil
		preState[i] = pre
		id := s.ID()
		ls := ledgercore.Txlease{Sender: s.Txn.Sender, Lease: s.Txn.Lease}
		if seenID[id] || (s.Txn.Lease != [32]byte{} && seenLease[ls]) {
			pre = false
		}
		seenID[id] = true
		seenLease[ls] = true
		preT[i] = pre
		txT[i] = vL(s.Txn.Sender[:], s.AuthAddr[:], s.Txn.RekeyTo[:], s.Txn.Group[:], body, pre, true)
		gT[i] = vL(s.Txn.Group[:], body)
	}
	if len(g.stxs) > 0 {
		hs.add(0, crypto.HashRep(grp))
	}
	senders := vc29Addrs(g.stxs)
	stT := make([]interface{}, len(senders))
	for i, a := range senders {
		v := u.authAddr(ev, a)
		stT[i] = vL(a[:], v[:])
	}
	wads := transactions.WrapSignedTxnsWithAD(g.stxs)
	usage, paid := transactions.SummarizeFees(wads, ev.proto)
	feesOK := CheckGroupFees(paid, usage, ev.proto.MinFee()) == nil

	if emitAux {
		// cg: transactions.CheckTxnGroup
		var obs []interface{}
		err := transactions.CheckTxnGroup(g.stxs)
		var me *transactions.TxGroupMalformedError
		switch {
		case err == nil:
			obs = vL(vSym("ok"))
		case errors.As(err, &me) && me.Reason == transactions.TxGroupMalformedErrorReasonEmptyGroupID:
			obs = vL(vSym("err"), vSym("grp_empty"), me.GroupIndex)
		case errors.As(err, &me) && me.Reason == transactions.TxGroupMalformedErrorReasonInconsistentGroupID:
			obs = vL(vSym("err"), vSym("grp_inconsistent"), me.GroupIndex)
		case errors.As(err, &me) && me.Reason == transactions.TxGroupMalformedErrorReasonIncompleteGroup:
			obs = vL(vSym("err"), vSym("grp_incomplete"), me.GroupIndex)
		default:
			t.Fatalf("CheckTxnGroup: unclassified %v", err)
		}
		out.Case(vSym("cg"), gT, hs.rows, obs, g.orig)
		u.st["cg"]++
		if err == nil {
			u.st["cg_ok"]++
		} else {
			u.st["cg_"+fmt.Sprint(obs[1])]++
		}

		// tt: TestTransactionGroup
		err = ev.TestTransactionGroup(g.stxs)
		if err == nil {
			obs = vL(vSym("ok"))
		} else {
			c, i := u.evalObs(err, -2)
			if c == "pre" {
				// the first member whose pre-check fails
				for j := range preState {
					if !preState[j] {
						i = j
						break
					}
				}
			}
			if c == "wf" || c == "apply" || c == "auth" {
				t.Fatalf("TestTransactionGroup: unexpected %s error: %v", c, err)
			}
			obs = vL(vSym("err"), vSym(c), i)
		}
		ttx := make([]interface{}, len(g.stxs))
		for i, s := range g.stxs {
			ttx[i] = vL(s.Txn.Group[:], vc29Body(s.Txn), preState[i])
		}
		out.Case(vSym("tt"), ev.proto.MaxTxGroupSize, ttx, hs.rows, obs, g.orig)
		u.st["tt"]++
	}

	// tg: TransactionGroup
	tr := &vc29Tracer{last: -1}
	ev.Tracer = tr
	before := len(ev.block.Payset)
	err := ev.TransactionGroup(wads...)
	ev.Tracer = nil
	var obs []interface{}
	if err == nil {
		post := make([]interface{}, len(senders))
		for i, a := range senders {
			v := u.authAddr(ev, a)
			post[i] = vL(a[:], v[:])
		}
		obs = vL(vSym("ok"), post)
		if len(ev.block.Payset) != before+len(g.stxs) {
			t.Fatalf("accepted group not in the payset")
		}
		if ev == u.ev {
			u.inBlk += len(g.stxs)
		}
	} else {
		c, i := u.evalObs(err, tr.last)
		if c == "apply" || c == "wf" {
			t.Fatalf("unexpected %s error (generator should avoid it): %v", c, err)
		}
		obs = vL(vSym("err"), vSym(c), i)
		if len(ev.block.Payset) != before {
			t.Fatalf("rejected group changed the payset")
		}
	}
	out.Case(vSym("tg"), validate, ev.proto.MaxTxGroupSize, stT, feesOK, txT, hs.rows, obs, g.orig)
	u.st["tg"]++
	u.st[fmt.Sprintf("tg_size_%02d", len(g.stxs))]++
	if err == nil {
		u.st["tg_ok"]++
		if !g.honest {
			u.st["tg_ok_mutated"]++
		}
	} else {
		u.st["tg_"+fmt.Sprint(obs[1])]++
	}
	if g.honest {
		u.st["tg_honest"]++
		if err == nil {
			u.st["tg_honest_ok"]++
		}
	}
	for _, m := range g.muts {
		u.st["mut_"+m]++
		if err == nil {
			u.st["mut_"+m+"_accepted"]++
		}
	}
	if validate && u.inBlk > 60 {
		u.nextBlock()
	}
}

func (u *vc29U) stats() {
	m := map[string]interface{}{}
	for k, v := range u.st {
		m[k] = v
	}
	vStats(m)
}

// evaluator half of C28: the authorizer named by the SignedTxn must be the sender's current one
func TestVerifC28Eval(t *testing.T) {
	n := vEnvInt("VERIF_C28_EVAL_N", 1200)
	r := vNewRand(0xC28E)
	u := vc29NewUniverse(t, r)
	out := vOpen("cases_tg.txt")
	defer out.Close()
	for c := 0; c < n; c++ {
		g := u.genGroup(u.ev, true)
		u.runGroup(out, g, r.Intn(15) != 0, false)
	}
	u.stats()
}

// ---- blocks ----
func vc29Tree(hs *vc29Hashes, kind int, size int, layer [][]byte) []byte {
	if len(layer) == 0 {
		return []byte{}
	}
	for len(layer) > 1 {
		var next [][]byte
		for i := 0; i < len(layer); i += 2 {
			buf := make([]byte, 2*size)
			copy(buf, layer[i])
			if i+1 < len(layer) {
				copy(buf[len(layer[i]):], layer[i+1])
			}
			next = append(next, hs.add(kind, append([]byte("MA"), buf...)))
		}
		layer = next
	}
	return layer[0]
}

type vc29Proto struct {
	name    protocol.ConsensusVersion
	ok      bool
	ctype   int
	s256    bool
	s512    bool
	mutated bool
}

// forced: 0 random; 1 Merkle only; 2 Merkle + both vector commitments; 3 flat only
func (u *vc29U) commitProto(forced int) vc29Proto {
	r := u.r
	p := config.Consensus[protocol.ConsensusFuture]
	v := vc29Proto{ok: true, ctype: int(p.PaysetCommit), s256: p.EnableSHA256TxnCommitmentHeader, s512: p.EnableSha512BlockHash}
	switch r.Intn(8) {
	case 0, 1:
		v.ctype = int(config.PaysetCommitFlat)
	case 2:
		if r.Intn(3) == 0 {
			v.ctype = int(config.PaysetCommitUnsupported)
		}
	}
	if r.Intn(4) == 0 {
		v.s256 = !v.s256
	}
	if r.Intn(4) == 0 {
		v.s512 = !v.s512
	}
	switch forced {
	case 1:
		v.ctype, v.s256, v.s512 = int(config.PaysetCommitMerkle), false, false
	case 2:
		v.ctype, v.s256, v.s512 = int(config.PaysetCommitMerkle), true, true
	case 3:
		v.ctype, v.s256, v.s512 = int(config.PaysetCommitFlat), false, false
	}
	p.PaysetCommit = config.PaysetCommitType(v.ctype)
	p.EnableSHA256TxnCommitmentHeader = v.s256
	p.EnableSha512BlockHash = v.s512
	v.name = protocol.ConsensusVersion(fmt.Sprintf("verif-c29-%d-%v-%v", v.ctype, v.s256, v.s512))
	config.Consensus[v.name] = p
	if forced == 0 && r.Intn(40) == 0 {
		v.name = "verif-c29-unknown-protocol"
		v.ok = false
	}
	return v
}

func (u *vc29U) blockCases(out *vOut, nBlocks, variants int) {
	t, r := u.t, u.r
	for b := 0; b < nBlocks; b++ {
		// a fresh block with 0..9 transactions (some grouped)
		nt := r.Intn(10)
		if r.Intn(8) == 0 {
			nt = 0
		}
		for u.inBlk = 0; u.inBlk < nt; {
			g2 := vc29Group{honest: true}
			k := 1 + r.Intn(3)
			txs := make([]transactions.Transaction, k)
			for i := range txs {
				s := u.addrs[5+r.Intn(len(u.addrs)-5)] // never rekeyed
				txs[i] = u.pay(s)
			}
			if k > 1 {
				gid := vc29GroupID(txs)
				for i := range txs {
					txs[i].Group = gid
				}
			}
			for i := range txs {
				a := u.authAddr(u.ev, txs[i].Sender)
				signer := txs[i].Sender
				if !a.IsZero() {
					signer = a
				}
				s := txs[i].Sign(u.keys[signer])
				s.AuthAddr = a
				g2.stxs = append(g2.stxs, s)
			}
			if err := u.ev.TransactionGroup(transactions.WrapSignedTxnsWithAD(g2.stxs)...); err != nil {
				t.Fatalf("block fill: %v", err)
			}
			u.inBlk += k
		}
		ub, err := u.ev.GenerateBlock(nil)
		if err != nil {
			t.Fatalf("GenerateBlock: %v", err)
		}
		base := ub.UnfinishedBlock()
		if !base.ContentsMatchHeader() {
			t.Fatalf("generated block does not match its own header")
		}
		for v := 0; v < variants; v++ {
			forced := 0
			if v >= 1 && v <= 3 {
				forced = v
			}
			pv := u.commitProto(forced)
			blk := base
			blk.Payset = append(transactions.Payset{}, base.Payset...)
			blk.CurrentProtocol = pv.name
			good, gerr := blk.PaysetCommit()
			hdrFromReal := gerr == nil
			if hdrFromReal {
				blk.TxnCommitments = good
			}
			origEncs := make([]interface{}, len(blk.Payset))
			for i := range blk.Payset {
				origEncs[i] = protocol.Encode(&blk.Payset[i])
			}
			mutName := "none"
			hdrMut := false
			if (r.Intn(100) < 70 || forced > 0) && v > 0 {
				i := 0
				if len(blk.Payset) > 0 {
					i = r.Intn(len(blk.Payset))
				}
				x := r.Intn(15)
				switch forced {
				case 1, 2:
					x = 5 + r.Intn(2) // only the SignedTxnInBlock changes, not the transaction
				case 3:
					x = r.Intn(3)
				}
				switch {
				case x == 0 && len(blk.Payset) > 1:
					j := (i + 1 + r.Intn(len(blk.Payset)-1)) % len(blk.Payset)
					blk.Payset[i], blk.Payset[j] = blk.Payset[j], blk.Payset[i]
					mutName = "swap"
				case x == 1 && len(blk.Payset) > 0:
					blk.Payset = append(blk.Payset[:i:i], blk.Payset[i+1:]...)
					mutName = "drop"
				case x == 2 && len(blk.Payset) > 0:
					blk.Payset = append(blk.Payset, blk.Payset[i])
					mutName = "duplicate"
				case x == 3:
					tx := u.pay(u.addrs[6])
					stib, err := blk.EncodeSignedTxn(tx.Sign(u.keys[u.addrs[6]]), transactions.ApplyData{})
					if err != nil {
						t.Fatal(err)
					}
					blk.Payset = append(blk.Payset, stib)
					mutName = "append"
				case x == 4 && len(blk.Payset) > 0:
					blk.Payset[i].Txn.Amount.Raw++
					mutName = "alter_amount"
				case x == 5 && len(blk.Payset) > 0:
					blk.Payset[i].ApplyData.SenderRewards.Raw++
					mutName = "alter_applydata"
				case x == 6 && len(blk.Payset) > 0:
					blk.Payset[i].Sig[r.Intn(64)] ^= 1
					mutName = "alter_sig"
				case x == 7 && len(blk.Payset) > 0:
					blk.Payset[i].HasGenesisHash = !blk.Payset[i].HasGenesisHash
					mutName = "alter_hgh"
				case x == 8 && len(blk.Payset) > 0:
					blk.Payset[i].Txn.Note = append([]byte{}, blk.Payset[i].Txn.Note...)
					blk.Payset[i].Txn.Note[0] ^= 1
					mutName = "alter_note"
				case x == 9 && len(blk.Payset) > 0:
					blk.Payset = blk.Payset[:0]
					mutName = "empty"
				case x == 10:
					blk.TxnCommitments.NativeSha512_256Commitment[r.Intn(32)] ^= 1
					mutName, hdrMut = "hdr_native", true
				case x == 11:
					blk.TxnCommitments.Sha256Commitment[r.Intn(32)] ^= 1
					mutName, hdrMut = "hdr_sha256", true
				case x == 12:
					blk.TxnCommitments.Sha512Commitment[r.Intn(64)] ^= 1
					mutName, hdrMut = "hdr_sha512", true
				case x == 13:
					blk.TxnCommitments = bookkeeping.TxnCommitments{}
					mutName, hdrMut = "hdr_zero", true
				case x == 14 && len(blk.Payset) > 0:
					blk.Payset[i].Txn.GenesisID = "x" // DecodeSignedTxn must refuse it
					mutName = "alter_gid"
				}
			}
			// record: encodings, hashes, real trees' bottom levels
			hs := vc29NewHashes(true)
			ps := make([]interface{}, len(blk.Payset))
			leaves := [3][][]byte{}
			decodeOK := true
			for i := range blk.Payset {
				stib := blk.Payset[i]
				enc := protocol.Encode(&stib)
				stx, _, derr := blk.DecodeSignedTxn(stib)
				if derr != nil {
					decodeOK = false
					ps[i] = vL(enc, vL())
					continue
				}
				tenc := protocol.Encode(&stx.Txn)
				ps[i] = vL(enc, vL(tenc))
				for kind := 0; kind < 3; kind++ {
					ik := kind
					if kind == 2 {
						ik = 1
					}
					txid := hs.add(ik, append([]byte("TX"), tenc...))
					sh := hs.add(ik, append([]byte("STIB"), enc...))
					leaves[kind] = append(leaves[kind], hs.add(kind, append(append([]byte("TL"), txid...), sh...)))
				}
			}
			// flat commitment pre-image
			if len(blk.Payset) == 0 {
				hs.add(0, append([]byte("PF"), 0xc0))
			} else {
				hs.add(0, crypto.HashRep(blk.Payset))
			}
			if decodeOK {
				vc29Tree(hs, 0, 32, leaves[0])
				for kind := 1; kind <= 2; kind++ {
					size := 32 * kind
					hs.add(kind, []byte("MB"))
					var lv0 [][]byte
					if kind == 1 {
						tr, err := blk.TxnMerkleTreeSHA256()
						if err != nil {
							t.Fatal(err)
						}
						for _, d := range tr.Levels[0] {
							lv0 = append(lv0, d)
						}
					} else {
						tr, err := blk.TxnMerkleTreeSHA512()
						if err != nil {
							t.Fatal(err)
						}
						for _, d := range tr.Levels[0] {
							lv0 = append(lv0, d)
						}
					}
					vc29Tree(hs, kind, size, lv0)
				}
			}
			match := blk.ContentsMatchHeader()
			orig := vL()
			if hdrFromReal && !hdrMut {
				orig = vL(origEncs)
			}
			out.Case(vSym("cm"), vL(pv.ok, pv.ctype, pv.s256, pv.s512), ps,
				vL(blk.TxnCommitments.NativeSha512_256Commitment[:], blk.TxnCommitments.Sha256Commitment[:], blk.TxnCommitments.Sha512Commitment[:]),
				hs.rows, match, orig)
			u.st["cm"]++
			u.st["cm_mut_"+mutName]++
			u.st[fmt.Sprintf("cm_type_%d_%v_%v", pv.ctype, pv.s256, pv.s512)]++
			u.st[fmt.Sprintf("cm_len_%02d", len(blk.Payset))]++
			if match {
				u.st["cm_match"]++
				u.st["cm_mut_"+mutName+"_match"]++
			}
		}
		u.precheckCases(out, variants)
		u.nextBlockFrom(ub)
	}
}

// finish the block that GenerateBlock was already called on
func (u *vc29U) nextBlockFrom(ub *ledgercore.UnfinishedBlock) {
	var seed committee.Seed
	copy(seed[:], u.r.Bytes(32))
	vb := ledgercore.MakeValidatedBlock(ub.UnfinishedBlock().WithProposer(seed, testPoolAddr, true), ub.UnfinishedDeltas())
	if err := u.l.AddValidatedBlock(vb, agreement.Certificate{}); err != nil {
		u.t.Fatalf("AddValidatedBlock: %v", err)
	}
	u.ev = u.l.nextBlock(u.t)
	u.inBlk = 0
}

func (u *vc29U) precheckCases(out *vOut, variants int) {
	t, r := u.t, u.r
	realPrev, err := u.l.BlockHdr(u.l.Latest())
	if err != nil {
		t.Fatal(err)
	}
	for v := 0; v < variants; v++ {
		prev := realPrev
		p := config.Consensus[protocol.ConsensusFuture]
		s512 := p.EnableSha512BlockHash
		if r.Intn(3) == 0 {
			s512 = !s512
		}
		p.EnableSha512BlockHash = s512
		name := protocol.ConsensusVersion(fmt.Sprintf("verif-c29-pc-%v", s512))
		config.Consensus[name] = p
		prev.CurrentProtocol = name
		bh := bookkeeping.MakeBlock(prev).BlockHeader
		switch r.Intn(12) {
		case 0:
			prev.Round = basics.Round(^uint64(0)) // successor round wraps
		case 1:
			prev.Round = basics.Round(r.Edge64())
		}
		if prev.Round != realPrev.Round {
			bh.Round = prev.Round + 1
			bh.Branch = prev.Hash()
			if s512 {
				bh.Branch512 = prev.Hash512()
			}
		}
		origPrevEnc := protocol.Encode(&prev)
		origBranch := bh.Branch
		protoOK := true
		mutName := "none"
		if v > 0 && r.Intn(100) < 75 {
			switch r.Intn(14) {
			case 0:
				bh.Round++
				mutName = "round_up"
			case 1:
				bh.Round--
				mutName = "round_down"
			case 2:
				bh.Round = basics.Round(r.Edge64())
				mutName = "round_random"
			case 3:
				bh.Branch[r.Intn(32)] ^= 1
				mutName = "branch_flip"
			case 4:
				bh.Branch = bookkeeping.BlockHash(crypto.Hash(r.Bytes(8)))
				mutName = "branch_other"
			case 5:
				bh.Branch512[r.Intn(64)] ^= 1
				mutName = "branch512_flip"
			case 6:
				bh.Branch512 = crypto.Sha512Digest{}
				mutName = "branch512_zero"
			case 7:
				bh.Branch512 = prev.Hash512()
				mutName = "branch512_set"
			case 8:
				// the previous header is altered after the branch was taken
				switch r.Intn(5) {
				case 0:
					prev.TimeStamp++
				case 1:
					prev.Seed[r.Intn(32)] ^= 1
				case 2:
					prev.TxnCommitments.NativeSha512_256Commitment[r.Intn(32)] ^= 1
				case 3:
					prev.Branch[r.Intn(32)] ^= 1
				case 4:
					prev.RewardsLevel++
				}
				mutName = "prev_altered"
			case 9:
				bh.TimeStamp = prev.TimeStamp - 5
				mutName = "timestamp"
			case 10:
				bh.GenesisID = "other"
				mutName = "genesis_id"
			case 11:
				bh.CurrentProtocol = "verif-c29-unknown-protocol"
				protoOK = false
				mutName = "proto_unknown"
			case 12:
				bh.Bonus.Raw++
				mutName = "bonus"
			case 13:
				// a different previous block with the same round
				prev.Seed[0] ^= 0xff
				prev.TxnCommitments.Sha256Commitment[3] ^= 2
				mutName = "prev_replaced"
			}
		}
		// oracle for the rules that are not modelled: PreCheck on a copy whose round / branch /
		// branch512 are repaired
		fixed := bh
		fixed.Round = prev.Round + 1
		fixed.Branch = prev.Hash()
		if s512 {
			fixed.Branch512 = prev.Hash512()
		} else {
			fixed.Branch512 = crypto.Sha512Digest{}
		}
		restOK := !protoOK || fixed.PreCheck(prev) == nil

		hs := vc29NewHashes(true)
		prevEnc := protocol.Encode(&prev)
		hs.add(0, append([]byte("BH"), prevEnc...))
		hs.add(2, append([]byte("BH"), prevEnc...))
		err := bh.PreCheck(prev)
		obs := "ok"
		if err != nil {
			m := err.Error()
			switch {
			case strings.Contains(m, "not supported"):
				obs = "proto"
			case strings.HasPrefix(m, "block round incorrect"):
				obs = "round"
			case strings.HasPrefix(m, "block branch incorrect"):
				obs = "branch"
			case strings.HasPrefix(m, "block branch512 incorrect"):
				obs = "branch512"
			case strings.HasPrefix(m, "block branch512 not allowed"):
				obs = "branch512_notallowed"
			default:
				obs = "other"
			}
		}
		out.Case(vSym("pc"), protoOK, s512, uint64(prev.Round), uint64(bh.Round), bh.Branch[:], bh.Branch512[:], prevEnc, restOK,
			hs.rows, vSym(obs), vL(origBranch[:], origPrevEnc))
		u.st["pc"]++
		u.st["pc_"+obs]++
		u.st["pc_mut_"+mutName]++
		if err == nil {
			u.st["pc_mut_"+mutName+"_ok"]++
		}
	}
}

func TestVerifC29(t *testing.T) {
	n := vEnvInt("VERIF_C29_N", 1000)
	nBlocks := vEnvInt("VERIF_C29_BLOCKS", 25)
	variants := vEnvInt("VERIF_C29_VARIANTS", 8)
	r := vNewRand(0xC29)
	u := vc29NewUniverse(t, r)
	out := vOpen("cases_grp.txt")
	for c := 0; c < n; c++ {
		g := u.genGroup(u.ev, false)
		u.runGroup(out, g, r.Intn(20) != 0, true)
	}
	out.Close()
	out2 := vOpen("cases_blk.txt")
	u.blockCases(out2, nBlocks, variants)
	out2.Close()
	u.stats()
}
