//go:build verif

package eval

// C18 / C19 / C21 harness (shared generator; C19 and C21 call vc18Run from their own files).
//
// A small closed universe of accounts (fee sink, rewards pool, user accounts of every status,
// one rekeyed, one near its minimum balance, one empty) lives in a scripted in-memory ledger
// (vc18Ledger: the whole ledger IS the universe, so every balance can be enumerated).  For every
// block the real StartEvaluator (Validate+Generate) is started, random groups of 1..16
// payment / close / keyreg / rekey / asset transactions and application calls (a fixed interpreter
// program executes its arguments as a script, see vc18Interpreter) -- with failing members of varied kinds at varied
// positions -- are fed to the real BlockEvaluator.TransactionGroup, and after every call the
// evaluator is snapshotted from inside the package: the account table seen through
// eval.state.lookup, asset params / holdings / creators, eval.state.mods.Accts order, Txids (with
// Intra), Txleases, txnCount, feesCollected, len(Payset) and blockTxBytes.  The block is then finished with GenerateBlock, given a
// proposer, re-validated with the real eval.Eval (validate mode: payouts are performed) and
// its StateDelta is applied to the ledger; the resulting table is the last observation.
// One case line = one block: inputs (parameters, previous state, abstract transactions) and
// every observation.  The Coq side replays the block through the model.

import (
	"context"
	"encoding/binary"
	"errors"
	"fmt"
	"sort"
	"strings"
	"testing"

	"github.com/algorand/go-algorand/agreement"
	"github.com/algorand/go-algorand/config"
	"github.com/algorand/go-algorand/crypto"
	"github.com/algorand/go-algorand/data/basics"
	"github.com/algorand/go-algorand/data/bookkeeping"
	"github.com/algorand/go-algorand/data/committee"
	"github.com/algorand/avm-abi/apps"

	"github.com/algorand/go-algorand/data/transactions"
	"github.com/algorand/go-algorand/data/transactions/logic"
	"github.com/algorand/go-algorand/data/transactions/verify"
	"github.com/algorand/go-algorand/ledger/ledgercore"
	"github.com/algorand/go-algorand/protocol"
)

// ---------------------------------------------------------------- scripted ledger
type vc18Ledger struct {
	proto    config.ConsensusParams
	protoV   protocol.ConsensusVersion
	gh       crypto.Digest
	hdrs     []bookkeeping.BlockHeader
	accts    map[basics.Address]ledgercore.AccountData
	holdings map[ledgercore.AccountAsset]basics.AssetHolding
	aparams  map[ledgercore.AccountAsset]basics.AssetParams
	totals   ledgercore.AccountTotals
	txids    map[transactions.Txid]basics.Round // committed txid -> LastValid
	panicTxid  *transactions.Txid // armed: CheckDup panics when asked about this transaction
	panicFired bool
	appPar   map[ledgercore.AccountApp]basics.AppParams
	appLoc   map[ledgercore.AccountApp]basics.AppLocalState
	kv       map[string][]byte
}

func (l *vc18Ledger) latest() basics.Round { return basics.Round(len(l.hdrs) - 1) }
func (l *vc18Ledger) BlockHdr(r basics.Round) (bookkeeping.BlockHeader, error) {
	if int(r) >= len(l.hdrs) {
		return bookkeeping.BlockHeader{}, errors.New("no such header")
	}
	return l.hdrs[r], nil
}
func (l *vc18Ledger) GenesisHash() crypto.Digest           { return l.gh }
func (l *vc18Ledger) GenesisProto() config.ConsensusParams { return l.proto }
func (l *vc18Ledger) LatestTotals() (basics.Round, ledgercore.AccountTotals, error) {
	return l.latest(), l.totals, nil
}
func (l *vc18Ledger) VotersForStateProof(basics.Round) (*ledgercore.VotersForRound, error) {
	return nil, nil
}
func (l *vc18Ledger) FlushCaches() {}
func (l *vc18Ledger) CheckDup(_ config.ConsensusParams, _ basics.Round, _ basics.Round, _ basics.Round, txid transactions.Txid, _ ledgercore.Txlease) error {
	if l.panicTxid != nil && *l.panicTxid == txid {
		l.panicFired = true
		panic("vc18: injected panic in the ledger lookup")
	}
	if _, ok := l.txids[txid]; ok {
		return &ledgercore.TransactionInLedgerError{Txid: txid, InBlockEvaluator: false}
	}
	return nil
}
func (l *vc18Ledger) LookupWithoutRewards(r basics.Round, a basics.Address) (ledgercore.AccountData, basics.Round, error) {
	return l.accts[a], r, nil
}
func (l *vc18Ledger) LookupAgreement(_ basics.Round, a basics.Address) (basics.OnlineAccountData, error) {
	ad := l.accts[a]
	return ad.OnlineAccountData(l.proto.RewardUnit, l.hdrs[l.latest()].RewardsLevel), nil
}
func (l *vc18Ledger) GetKnockOfflineCandidates(basics.Round, config.ConsensusParams) (map[basics.Address]basics.OnlineAccountData, error) {
	ret := make(map[basics.Address]basics.OnlineAccountData)
	for a, d := range l.accts {
		if d.Status == basics.Online && !d.MicroAlgos.IsZero() {
			ret[a] = d.OnlineAccountData(l.proto.RewardUnit, l.hdrs[l.latest()].RewardsLevel)
		}
	}
	return ret, nil
}
func (l *vc18Ledger) LookupAsset(_ basics.Round, a basics.Address, idx basics.AssetIndex) (ledgercore.AssetResource, error) {
	var res ledgercore.AssetResource
	k := ledgercore.AccountAsset{Address: a, Asset: idx}
	if h, ok := l.holdings[k]; ok {
		res.AssetHolding = &h
	}
	if p, ok := l.aparams[k]; ok {
		res.AssetParams = &p
	}
	return res, nil
}
func (l *vc18Ledger) LookupApplication(_ basics.Round, a basics.Address, idx basics.AppIndex) (ledgercore.AppResource, error) {
	var res ledgercore.AppResource
	k := ledgercore.AccountApp{Address: a, App: idx}
	if p, ok := l.appPar[k]; ok {
		res.AppParams = &p
	}
	if s, ok := l.appLoc[k]; ok {
		res.AppLocalState = &s
	}
	return res, nil
}
func (l *vc18Ledger) LookupKv(_ basics.Round, key string) ([]byte, error) { return l.kv[key], nil }
func (l *vc18Ledger) GetCreatorForRound(_ basics.Round, idx basics.CreatableIndex, ct basics.CreatableType) (basics.Address, bool, error) {
	if ct == basics.AssetCreatable {
		for k := range l.aparams {
			if k.Asset == basics.AssetIndex(idx) {
				return k.Address, true, nil
			}
		}
	} else {
		for k := range l.appPar {
			if k.App == basics.AppIndex(idx) {
				return k.Address, true, nil
			}
		}
	}
	return basics.Address{}, false, nil
}
func (l *vc18Ledger) GetStateProofVerificationContext(basics.Round) (*ledgercore.StateProofVerificationContext, error) {
	return nil, errors.New("none")
}
func (l *vc18Ledger) OnlineCirculation(basics.Round, basics.Round) (basics.MicroAlgos, error) {
	var c basics.MicroAlgos
	for _, d := range l.accts {
		if d.Status == basics.Online {
			c.Raw += d.MicroAlgos.Raw
		}
	}
	return c, nil
}

// apply a validated block: header, account deltas, asset resources, totals, txids
func (l *vc18Ledger) add(blk bookkeeping.Block, delta ledgercore.StateDelta) {
	l.hdrs = append(l.hdrs, blk.BlockHeader)
	for i := 0; i < delta.Accts.Len(); i++ {
		a, d := delta.Accts.GetByIdx(i)
		l.accts[a] = d
	}
	for _, r := range delta.Accts.AssetResources {
		k := ledgercore.AccountAsset{Address: r.Addr, Asset: r.Aidx}
		if r.Holding.Deleted {
			delete(l.holdings, k)
		} else if r.Holding.Holding != nil {
			l.holdings[k] = *r.Holding.Holding
		}
		if r.Params.Deleted {
			delete(l.aparams, k)
		} else if r.Params.Params != nil {
			l.aparams[k] = *r.Params.Params
		}
	}
	for _, r := range delta.Accts.AppResources {
		k := ledgercore.AccountApp{Address: r.Addr, App: r.Aidx}
		if r.Params.Deleted {
			delete(l.appPar, k)
		} else if r.Params.Params != nil {
			l.appPar[k] = *r.Params.Params
		}
		if r.State.Deleted {
			delete(l.appLoc, k)
		} else if r.State.LocalState != nil {
			l.appLoc[k] = *r.State.LocalState
		}
	}
	for key, v := range delta.KvMods {
		if v.Data == nil {
			delete(l.kv, key)
		} else {
			l.kv[key] = v.Data
		}
	}
	l.totals = delta.Totals
	for txid, inc := range delta.Txids {
		l.txids[txid] = inc.LastValid
	}
}

// ---------------------------------------------------------------- universe
type vc18U struct {
	addrs  []basics.Address
	keys   []*crypto.SignatureSecrets
	ids    map[basics.Address]int
	txids  map[transactions.Txid]int
	leases map[[32]byte]int
	l      *vc18Ledger
	r      *vRand
	st     map[string]int
	uniq   uint64
	dead   bool // the real code refused one of its own blocks: stop this universe
	assetWeight int // share of asset transactions (out of 20 + assetWeight + appWeight)
	appWeight   int // share of application calls
	probePct    int // share of "write again, then fail" groups
	appids      []uint64                   // application ids created so far (ascending)
	appAddr     map[basics.Address]uint64  // application account -> application id
	prog        []byte                     // the interpreter program
	aids   []uint64 // asset ids known so far (ascending), incl. predicted ids of groups that were tried
}

func (u *vc18U) addApp(id uint64) {
	for _, x := range u.appids {
		if x == id {
			return
		}
	}
	u.appids = append(u.appids, id)
	sort.Slice(u.appids, func(i, j int) bool { return u.appids[i] < u.appids[j] })
	u.appAddr[basics.AppIndex(id).Address()] = id
}

func (u *vc18U) appList() []interface{} {
	var l []interface{}
	for _, x := range u.appids {
		l = append(l, x)
	}
	return l
}

// ids created by a group that was just accepted: read from the ApplyData of the new Payset entries
func (u *vc18U) learnIDs(ads []transactions.SignedTxnInBlock) {
	var walk func(ad transactions.ApplyData)
	walk = func(ad transactions.ApplyData) {
		if ad.ConfigAsset != 0 {
			u.addAid(uint64(ad.ConfigAsset))
		}
		if ad.ApplicationID != 0 {
			u.addApp(uint64(ad.ApplicationID))
		}
		for _, in := range ad.EvalDelta.InnerTxns {
			walk(in.ApplyData)
		}
	}
	for _, t := range ads {
		walk(t.ApplyData)
	}
}

// box name i (1..4): the first i bytes of "wxyz"; state key k: itob(k)
func vc18BoxName(i int) string { return "wxyz"[:i] }
func vc18Key(k int) string {
	var b [8]byte
	binary.BigEndian.PutUint64(b[:], uint64(k))
	return string(b[:])
}

// application rows (see coq/model/EvalCheck.v appobs_of); kind 4 only when counts != nil, kind 6 only when kvs != nil
func (u *vc18U) appRows(creator func(uint64) (basics.Address, bool), params func(basics.Address, uint64) (basics.AppParams, bool),
	local func(basics.Address, uint64) (basics.AppLocalState, bool), counts func(basics.Address, uint64, bool) (basics.StateSchema, bool),
	box func(uint64, string) ([]byte, bool), stored bool) []interface{} {
	var rows []interface{}
	for _, id := range u.appids {
		if c, ok := creator(id); ok && !stored {
			rows = append(rows, vL(3, id, u.id(c)))
		}
		for i, a := range u.addrs {
			if p, ok := params(a, id); ok {
				rows = append(rows, vL(1, i+1, id, p.GlobalStateSchema.NumUint, p.GlobalStateSchema.NumByteSlice,
					p.LocalStateSchema.NumUint, p.LocalStateSchema.NumByteSlice, uint64(p.ExtraProgramPages), u.id(p.SizeSponsor),
					p.ForeignBoxReads, p.FamilyBoxAccess))
				if stored {
					for _, k := range []int{1, 2, 3, 4} {
						if v, ok := p.GlobalState[vc18Key(k)]; ok {
							rows = append(rows, vL(6, i+1, id, 1, k, v.Type == basics.TealBytesType))
						}
					}
				}
			}
			if s, ok := local(a, id); ok {
				rows = append(rows, vL(2, i+1, id, s.Schema.NumUint, s.Schema.NumByteSlice))
				if stored {
					for _, k := range []int{1, 2, 3, 4} {
						if v, ok := s.KeyValue[vc18Key(k)]; ok {
							rows = append(rows, vL(6, i+1, id, 0, k, v.Type == basics.TealBytesType))
						}
					}
				}
			}
		}
		if counts != nil {
			for i, a := range u.addrs {
				for _, g := range []bool{true, false} {
					if c, ok := counts(a, id, g); ok {
						rows = append(rows, vL(4, i+1, id, g, c.NumUint, c.NumByteSlice))
					}
				}
			}
		}
		for n := 1; n <= 4; n++ {
			if b, ok := box(id, vc18BoxName(n)); ok {
				rows = append(rows, vL(5, id, n, len(b)))
			}
		}
	}
	return rows
}

func (u *vc18U) ledgerAppRows(stored bool) []interface{} {
	l := u.l
	return u.appRows(
		func(id uint64) (basics.Address, bool) {
			a, ok, _ := l.GetCreatorForRound(0, basics.CreatableIndex(id), basics.AppCreatable)
			return a, ok
		},
		func(a basics.Address, id uint64) (basics.AppParams, bool) {
			p, ok := l.appPar[ledgercore.AccountApp{Address: a, App: basics.AppIndex(id)}]
			return p, ok
		},
		func(a basics.Address, id uint64) (basics.AppLocalState, bool) {
			s, ok := l.appLoc[ledgercore.AccountApp{Address: a, App: basics.AppIndex(id)}]
			return s, ok
		},
		nil,
		func(id uint64, name string) ([]byte, bool) {
			b, ok := l.kv[apps.MakeBoxKey(id, name)]
			return b, ok
		}, stored)
}

func (u *vc18U) evalAppRows(ev *BlockEvaluator) []interface{} {
	must := func(err error) {
		if err != nil {
			panic(err)
		}
	}
	return u.appRows(
		func(id uint64) (basics.Address, bool) {
			a, ok, err := ev.state.GetCreator(basics.CreatableIndex(id), basics.AppCreatable)
			must(err)
			return a, ok
		},
		func(a basics.Address, id uint64) (basics.AppParams, bool) {
			p, ok, err := ev.state.GetAppParams(a, basics.AppIndex(id))
			must(err)
			return p, ok
		},
		func(a basics.Address, id uint64) (basics.AppLocalState, bool) {
			s, ok, err := ev.state.GetAppLocalState(a, basics.AppIndex(id))
			must(err)
			return s, ok
		},
		func(a basics.Address, id uint64, g bool) (basics.StateSchema, bool) {
			al, err := ev.state.allocated(a, basics.AppIndex(id), g)
			must(err)
			if !al {
				return basics.StateSchema{}, false
			}
			c, err := ev.state.getStorageCounts(a, basics.AppIndex(id), g)
			must(err)
			return c, true
		},
		func(id uint64, name string) ([]byte, bool) {
			b, ok, err := ev.state.GetBox(basics.AppIndex(id), name)
			must(err)
			return b, ok
		}, false)
}

func (u *vc18U) aidList() []interface{} {
	var l []interface{}
	for _, x := range u.aids {
		l = append(l, x)
	}
	return l
}

func (u *vc18U) addAid(id uint64) {
	for _, x := range u.aids {
		if x == id {
			return
		}
	}
	u.aids = append(u.aids, id)
	sort.Slice(u.aids, func(i, j int) bool { return u.aids[i] < u.aids[j] })
}

func (u *vc18U) aparams(p basics.AssetParams) []interface{} {
	extra := 0
	if p.Decimals != 0 || p.UnitName != "" || p.AssetName != "" || p.URL != "" || p.MetadataHash != ([32]byte{}) {
		extra = int(p.Decimals) + 1
	}
	return vL(p.Total, p.DefaultFrozen, u.id(p.Manager), u.id(p.Reserve), u.id(p.Freeze), u.id(p.Clawback), extra)
}

// sparse asset view: every (account, known asset) for which params or a holding exist, and
// the creator of every known asset
func (u *vc18U) aview(getP func(basics.Address, basics.AssetIndex) (basics.AssetParams, bool), getH func(basics.Address, basics.AssetIndex) (basics.AssetHolding, bool),
	getC func(basics.AssetIndex) (basics.Address, bool)) ([]interface{}, []interface{}) {
	var av, cr []interface{}
	type who struct {
		id int
		a  basics.Address
	}
	var all []who
	for i, a := range u.addrs {
		all = append(all, who{i + 1, a})
	}
	for _, app := range u.appids { // application accounts can hold assets as well
		all = append(all, who{1000000 + int(app), basics.AppIndex(app).Address()})
	}
	for _, w := range all {
		i, a := w.id-1, w.a
		for _, id := range u.aids {
			p, okp := getP(a, basics.AssetIndex(id))
			h, okh := getH(a, basics.AssetIndex(id))
			if !okp && !okh {
				continue
			}
			var pt, ht interface{} = 0, 0
			if okp {
				pt = u.aparams(p)
			}
			if okh {
				ht = vL(h.Amount, h.Frozen)
			}
			av = append(av, vL(i+1, id, pt, ht))
		}
	}
	for _, id := range u.aids {
		if c, ok := getC(basics.AssetIndex(id)); ok {
			cr = append(cr, vL(id, u.id(c)))
		}
	}
	return av, cr
}

func (u *vc18U) ledgerAview() ([]interface{}, []interface{}) {
	l := u.l
	return u.aview(
		func(a basics.Address, i basics.AssetIndex) (basics.AssetParams, bool) {
			p, ok := l.aparams[ledgercore.AccountAsset{Address: a, Asset: i}]
			return p, ok
		},
		func(a basics.Address, i basics.AssetIndex) (basics.AssetHolding, bool) {
			h, ok := l.holdings[ledgercore.AccountAsset{Address: a, Asset: i}]
			return h, ok
		},
		func(i basics.AssetIndex) (basics.Address, bool) {
			a, ok, _ := l.GetCreatorForRound(0, basics.CreatableIndex(i), basics.AssetCreatable)
			return a, ok
		})
}

const (
	vc18Sink = 0 // index of the fee sink in addrs (id 1)
	vc18Pool = 1 // rewards pool (id 2)
)

func (u *vc18U) id(a basics.Address) int {
	if a.IsZero() {
		return 0
	}
	if i, ok := u.ids[a]; ok {
		return i
	}
	if i, ok := u.appAddr[a]; ok {
		return 1000000 + int(i)
	}
	panic("address outside the universe: " + a.String())
}

func (u *vc18U) txid(id transactions.Txid) int {
	if i, ok := u.txids[id]; ok {
		return i
	}
	u.txids[id] = len(u.txids) + 1
	return u.txids[id]
}

func (u *vc18U) lease(b [32]byte) int {
	if b == ([32]byte{}) {
		return 0
	}
	if i, ok := u.leases[b]; ok {
		return i
	}
	u.leases[b] = len(u.leases) + 1
	return u.leases[b]
}

// abstract key ids: byte 0 of the key material, the rest must be zero
func vc18KeyID(b []byte) int {
	for _, x := range b[1:] {
		if x != 0 {
			panic("unexpected key material")
		}
	}
	return int(b[0])
}

func vc18Status(s basics.Status) int {
	switch s {
	case basics.Offline:
		return 0
	case basics.Online:
		return 1
	case basics.NotParticipating:
		return 2
	}
	panic("status")
}

func (u *vc18U) acct(d ledgercore.AccountData) []interface{} {
	return vL(vc18Status(d.Status), d.MicroAlgos.Raw, d.RewardsBase, d.RewardedMicroAlgos.Raw, u.id(d.AuthAddr), d.IncentiveEligible,
		d.TotalAppSchema.NumUint, d.TotalAppSchema.NumByteSlice, uint64(d.TotalExtraAppPages), d.TotalAppParams, d.TotalAppLocalStates,
		d.TotalAssetParams, d.TotalAssets, d.TotalBoxes, d.TotalBoxBytes, uint64(d.LastProposed), uint64(d.LastHeartbeat),
		vc18KeyID(d.VoteID[:]), vc18KeyID(d.SelectionID[:]), vc18KeyID(d.StateProofID[:]),
		uint64(d.VoteFirstValid), uint64(d.VoteLastValid), d.VoteKeyDilution)
}

func (u *vc18U) ledgerTable() []interface{} {
	var t []interface{}
	for i, a := range u.addrs {
		t = append(t, vL(i+1, u.acct(u.l.accts[a])))
	}
	for _, id := range u.appids { // application accounts: only when not all-zero
		if d := u.l.accts[basics.AppIndex(id).Address()]; !d.IsZero() {
			t = append(t, vL(1000000+id, u.acct(d)))
		}
	}
	return t
}

// the evaluator's observable state, read from inside the package
func (u *vc18U) snap(ev *BlockEvaluator) []interface{} {
	var table, mods, txids, leases []interface{}
	for i, a := range u.addrs {
		d, err := ev.state.lookup(a)
		if err != nil {
			panic(err)
		}
		table = append(table, vL(i+1, u.acct(d)))
	}
	for _, id := range u.appids {
		d, err := ev.state.lookup(basics.AppIndex(id).Address())
		if err != nil {
			panic(err)
		}
		if !d.IsZero() {
			table = append(table, vL(1000000+id, u.acct(d)))
		}
	}
	for _, a := range ev.state.modifiedAccounts() {
		mods = append(mods, u.id(a))
	}
	type tx struct {
		id, intra int
		lv        uint64
	}
	var txs []tx
	for id, inc := range ev.state.mods.Txids {
		txs = append(txs, tx{u.txid(id), int(inc.Intra), uint64(inc.LastValid)})
	}
	sort.Slice(txs, func(i, j int) bool { return txs[i].intra < txs[j].intra })
	for _, x := range txs {
		txids = append(txids, vL(x.id, x.lv, x.intra))
	}
	type ls struct {
		s, l int
		e    uint64
	}
	var lss []ls
	for k, e := range ev.state.mods.Txleases {
		lss = append(lss, ls{u.id(k.Sender), u.lease(k.Lease), uint64(e)})
	}
	sort.Slice(lss, func(i, j int) bool {
		if lss[i].s != lss[j].s {
			return lss[i].s < lss[j].s
		}
		return lss[i].l < lss[j].l
	})
	for _, x := range lss {
		leases = append(leases, vL(x.s, x.l, x.e))
	}
	av, cr := u.aview(
		func(a basics.Address, i basics.AssetIndex) (basics.AssetParams, bool) {
			p, ok, err := ev.state.GetAssetParams(a, i)
			if err != nil {
				panic(err)
			}
			return p, ok
		},
		func(a basics.Address, i basics.AssetIndex) (basics.AssetHolding, bool) {
			h, ok, err := ev.state.GetAssetHolding(a, i)
			if err != nil {
				panic(err)
			}
			return h, ok
		},
		func(i basics.AssetIndex) (basics.Address, bool) {
			a, ok, err := ev.state.GetCreator(basics.CreatableIndex(i), basics.AssetCreatable)
			if err != nil {
				panic(err)
			}
			return a, ok
		})
	return vL(table, mods, txids, leases, ev.state.txnCount, ev.state.feesCollected.Raw, len(ev.block.Payset), av, cr, ev.blockTxBytes, u.evalAppRows(ev),
		ev.corruptedState)
}

// error classes: keep in sync with coq/model/EvalCow.v (E_*)
func vc18ErrClass(err error) int {
	if err == nil {
		return 0
	}
	var dead *bookkeeping.TxnDeadError
	var dup *ledgercore.TransactionInLedgerError
	var lease *ledgercore.LeaseInLedgerError
	var over *ledgercore.OverspendError
	var minb *ledgercore.MinBalanceError
	var wf *ledgercore.TxnNotWellFormedError
	var grp *ledgercore.TxGroupMalformedError
	var pan ledgercore.EvalPanicError
	m := err.Error()
	switch {
	case errors.As(err, &dead):
		return 1
	case strings.Contains(m, "tx.GenesisHash") || strings.Contains(m, "tx.GenesisID"):
		return 2
	case errors.As(err, &dup):
		return 3
	case errors.As(err, &lease):
		return 4
	case strings.Contains(m, "should have been authorized by"):
		return 5
	case errors.As(err, &over):
		return 6
	case errors.As(err, &minb):
		return 7
	case errors.As(err, &wf):
		return 8
	case errors.As(err, &grp):
		switch grp.Reason {
		case ledgercore.TxGroupMalformedErrorReasonExceedMaxSize:
			return 9
		case ledgercore.TxGroupMalformedErrorReasonInconsistentGroupID:
			return 10
		case ledgercore.TxGroupMalformedErrorReasonEmptyGroupID:
			return 11
		case ledgercore.TxGroupMalformedErrorReasonIncompleteGroup:
			return 12
		case ledgercore.TxGroupErrorReasonInvalidFee:
			return 13
		}
		return 99
	case errors.As(err, &pan):
		return 15
	case errors.Is(err, ledgercore.ErrEvaluatorCorruptedState):
		return 16
	case strings.Contains(m, "would use too much space"):
		return 17
	case errors.Is(err, ledgercore.ErrNoSpace):
		return 18
	}
	return 14
}

func vc18Params(p config.ConsensusParams) []interface{} {
	return vL(p.RewardUnit, p.MinBalance, p.MinTxnFee, p.UnfundedSenders, p.MaxTxGroupSize, p.SupportTransactionLeases,
		p.Payouts.Enabled, p.Payouts.GoOnlineFee, p.EnableKeyregCoherencyCheck, p.SupportBecomeNonParticipatingTransactions,
		p.EnableStateProofKeyregCheck, p.MaximumMinimumBalance, p.MaxAssetsPerAccount, p.AppFlatParamsMinBalance,
		p.AppFlatOptInMinBalance, p.BoxFlatMinBalance, p.BoxByteMinBalance, p.SchemaMinBalancePerEntry, p.SchemaUintMinBalance,
		p.SchemaBytesMinBalance, uint64(agreement.BalanceLookback(p)), p.MaxProposedExpiredOnlineAccounts, p.EnableAssetCloseAmount,
		p.MaxAppsCreated, p.MaxAppsOptedIn, p.MaxAppKeyLen, p.MaxBoxSize, p.EnableProperExtraPageAccounting)
}

// ---------------------------------------------------------------- genesis
func vc18NewUniverse(t *testing.T, r *vRand, st map[string]int) *vc18U {
	protoV := protocol.ConsensusFuture
	proto := config.Consensus[protoV]
	u := &vc18U{ids: map[basics.Address]int{}, txids: map[transactions.Txid]int{}, leases: map[[32]byte]int{}, r: r, st: st,
		appAddr: map[basics.Address]uint64{}, prog: vc18Program(t)}
	const n = 9
	for i := 0; i < n; i++ {
		var seed crypto.Seed
		copy(seed[:], r.Bytes(32))
		k := crypto.GenerateSignatureSecrets(seed)
		u.keys = append(u.keys, k)
		u.addrs = append(u.addrs, basics.Address(k.SignatureVerifier))
		u.ids[u.addrs[i]] = i + 1
	}
	A := uint64(1000000)
	accts := map[basics.Address]ledgercore.AccountData{}
	mk := func(i int, st basics.Status, algos uint64) ledgercore.AccountData {
		var d ledgercore.AccountData
		d.Status = st
		d.MicroAlgos.Raw = algos
		return d
	}
	sink := mk(vc18Sink, basics.NotParticipating, []uint64{proto.MinBalance + uint64(r.Intn(5000)), 50 * A, 3 * A, uint64(r.Intn(int(proto.MinBalance)))}[r.Intn(4)])
	pool := mk(vc18Pool, basics.NotParticipating, []uint64{1000000 * A, 20000 * A, 300 * A}[r.Intn(3)])
	if r.Intn(8) == 0 { // a pool / sink that earns rewards ("unlike mainnet")
		pool.Status = basics.Offline
	}
	if r.Intn(8) == 0 {
		sink.Status = basics.Offline
	}
	accts[u.addrs[vc18Sink]] = sink
	accts[u.addrs[vc18Pool]] = pool
	// 2: rich offline, 3: online (keys, maybe eligible), 4: not participating, 5: near its min balance,
	// 6: rekeyed to 2, 7: empty, 8: account with resource counts (higher min balance)
	accts[u.addrs[2]] = mk(2, basics.Offline, uint64(2000+r.Intn(50000))*A+uint64(r.Intn(1000000)))
	on := mk(3, basics.Online, uint64(500+r.Intn(5000))*A+uint64(r.Intn(1000000)))
	on.VoteID[0], on.SelectionID[0], on.StateProofID[0] = 7, 8, 9
	on.VoteFirstValid, on.VoteLastValid, on.VoteKeyDilution = 1, basics.Round(3+r.Intn(3000)), 100
	if r.Intn(3) == 0 {
		on.VoteLastValid = basics.Round(1 + r.Intn(6)) // expires during the run
	}
	on.IncentiveEligible = r.Bool()
	accts[u.addrs[3]] = on
	accts[u.addrs[4]] = mk(4, basics.NotParticipating, uint64(100+r.Intn(1000))*A+uint64(r.Intn(1000000)))
	accts[u.addrs[5]] = mk(5, basics.Offline, proto.MinBalance+uint64(r.Intn(3*int(proto.MinTxnFee))))
	rk := mk(6, basics.Offline, uint64(10+r.Intn(100))*A+uint64(r.Intn(1000000)))
	rk.AuthAddr = u.addrs[2]
	accts[u.addrs[6]] = rk
	// 7 stays empty
	res := mk(8, basics.Offline, uint64(50+r.Intn(50))*A)
	switch r.Intn(4) {
	case 0:
		res.TotalAppParams, res.TotalAppSchema.NumUint, res.TotalAppSchema.NumByteSlice = uint64(1+r.Intn(3)), uint64(r.Intn(20)), uint64(r.Intn(20))
		res.TotalExtraAppPages = uint32(r.Intn(4))
	case 1:
		res.TotalAppLocalStates, res.TotalAppSchema.NumUint = uint64(1+r.Intn(5)), uint64(r.Intn(30))
	case 2:
		res.TotalBoxes, res.TotalBoxBytes = uint64(1+r.Intn(5)), uint64(r.Intn(5000))
	case 3:
		res.TotalAssets = uint64(1 + r.Intn(6)) // counts only; no holdings behind them (never touched by asset txns)
	}
	if r.Intn(3) == 0 { // just above / below its requirement
		res.MicroAlgos.Raw = res.MinBalance(&proto).Raw + uint64(r.Intn(4000)) - 1000
	}
	accts[u.addrs[8]] = res

	l := &vc18Ledger{proto: proto, protoV: protoV, accts: accts, txids: map[transactions.Txid]basics.Round{},
		holdings: map[ledgercore.AccountAsset]basics.AssetHolding{}, aparams: map[ledgercore.AccountAsset]basics.AssetParams{},
		appPar: map[ledgercore.AccountApp]basics.AppParams{}, appLoc: map[ledgercore.AccountApp]basics.AppLocalState{}, kv: map[string][]byte{}}
	copy(l.gh[:], r.Bytes(32))
	gb := bookkeeping.GenesisBalances{Balances: map[basics.Address]basics.AccountData{}, FeeSink: u.addrs[vc18Sink], RewardsPool: u.addrs[vc18Pool]}
	var ot basics.OverflowTracker
	for a, d := range accts {
		var bd basics.AccountData
		ledgercore.AssignAccountData(&bd, d)
		gb.Balances[a] = bd
		l.totals.AddAccount(proto.RewardUnit, d, &ot)
	}
	if ot.Overflowed {
		t.Fatal("genesis totals overflow")
	}
	gen, err := bookkeeping.MakeGenesisBlock(protoV, gb, "vc18", l.gh)
	if err != nil {
		t.Fatal(err)
	}
	// rewards rate: none / the protocol's own / brisk (several micro-units of level per round)
	switch r.Intn(4) {
	case 0:
		gen.RewardsRate = 0
	case 1:
	default:
		gen.RewardsRate = l.totals.RewardUnits() * uint64(1+r.Intn(4000))
		if gen.RewardsRate > pool.MicroAlgos.Raw/64 {
			gen.RewardsRate = pool.MicroAlgos.Raw / 64
		}
	}
	l.hdrs = []bookkeeping.BlockHeader{gen.BlockHeader}
	u.l = l
	return u
}

// ---------------------------------------------------------------- transaction generation
type vc18Tx struct {
	tx     transactions.Transaction
	signer int // index of the signing key
}

func (u *vc18U) note() []byte {
	u.uniq++
	return []byte(fmt.Sprintf("vc18-%08d", u.uniq))
}

func (u *vc18U) balance(ev *BlockEvaluator, i int) (uint64, uint64) {
	d, err := ev.state.Get(u.addrs[i], true)
	if err != nil {
		panic(err)
	}
	return d.MicroAlgos.Raw, d.MinBalance(&ev.proto).Raw
}

// the key that should sign for account i according to the evaluator's current view
func (u *vc18U) signerFor(ev *BlockEvaluator, i int) int {
	d, _ := ev.state.lookup(u.addrs[i])
	if d.AuthAddr.IsZero() {
		return i
	}
	return u.id(d.AuthAddr) - 1
}

func (u *vc18U) user() int { return 2 + u.r.Intn(len(u.addrs)-2) }

// mostly-valid transaction of a random kind from a funded user account
func (u *vc18U) genTx(ev *BlockEvaluator, rnd basics.Round) vc18Tx {
	r := u.r
	p := ev.proto
	var tx transactions.Transaction
	s := u.user()
	for k := 0; k < 8; k++ {
		if b, m := u.balance(ev, s); b > m+2*p.MinTxnFee {
			break
		}
		s = u.user()
	}
	tx.Sender = u.addrs[s]
	tx.Fee.Raw = p.MinTxnFee
	if r.Intn(5) == 0 {
		tx.Fee.Raw = p.MinTxnFee + uint64(r.Intn(3000))
	}
	tx.FirstValid = rnd.SubSaturate(basics.Round(r.Intn(3)))
	tx.LastValid = rnd + basics.Round(r.Intn(20))
	tx.GenesisHash = u.l.gh
	tx.Note = u.note()
	if r.Intn(12) == 0 {
		tx.Lease[0] = byte(1 + r.Intn(3))
	}
	bal, minb := u.balance(ev, s)
	spendable := uint64(0)
	if bal > minb+tx.Fee.Raw {
		spendable = bal - minb - tx.Fee.Raw
	}
	kind := r.Intn(20 + u.assetWeight + u.appWeight)
	switch {
	case kind >= 20+u.assetWeight: // application transaction
		s = u.genApp(ev, &tx, s)
	case kind >= 20: // asset transaction
		if spendable < 2*p.MinBalance && r.Intn(4) != 0 {
			s = 2 // creations and opt-ins raise the requirement: mostly let the rich account do them
			tx.Sender = u.addrs[s]
		}
		s = u.genAsset(ev, &tx, s)
	case kind < 13: // payment
		tx.Type = protocol.PaymentTx
		rc := r.Intn(len(u.addrs))
		tx.Receiver = u.addrs[rc]
		switch r.Intn(6) {
		case 0:
			tx.Amount.Raw = 0
		case 1:
			tx.Amount.Raw = spendable // down to the minimum balance exactly
		case 2:
			tx.Amount.Raw = uint64(r.Intn(2000000))
		default:
			if spendable > 0 {
				tx.Amount.Raw = r.U64() % (spendable/4 + 1)
			}
		}
		if tx.Amount.Raw > spendable {
			tx.Amount.Raw = spendable
		}
		if rb, _ := u.balance(ev, rc); rb == 0 && tx.Amount.Raw < p.MinBalance && tx.Amount.Raw > 0 && rc > 1 {
			tx.Amount.Raw = 0 // do not create an under-funded account by accident
		}
		if r.Intn(25) == 0 {
			tx.Receiver = basics.Address{} // burn-less: amount to the zero address is a plain Move
			tx.Amount.Raw = 0
		}
	case kind < 15: // close out
		tx.Type = protocol.PaymentTx
		tx.Receiver = u.addrs[r.Intn(len(u.addrs))]
		if spendable > 0 {
			tx.Amount.Raw = r.U64() % (spendable + 1)
		}
		c := u.user()
		if c == s {
			c = 2 + (s-1)%(len(u.addrs)-2)
		}
		tx.CloseRemainderTo = u.addrs[c]
		if rb, _ := u.balance(ev, u.id(tx.Receiver)-1); rb == 0 && tx.Amount.Raw < p.MinBalance && u.id(tx.Receiver) > 2 {
			tx.Amount.Raw = 0
		}
	case kind < 18: // keyreg
		tx.Type = protocol.KeyRegistrationTx
		switch r.Intn(4) {
		case 0: // offline
		case 1: // non participating
			tx.Nonparticipation = true
		default: // online
			tx.VotePK[0], tx.SelectionPK[0], tx.StateProofPK[0] = byte(10+r.Intn(5)), byte(20+r.Intn(5)), byte(30+r.Intn(5))
			tx.VoteFirst = rnd.SubSaturate(basics.Round(r.Intn(3)))
			tx.VoteLast = rnd + basics.Round(1+r.Intn(3000))
			if r.Intn(3) == 0 {
				tx.VoteLast = rnd + basics.Round(1+r.Intn(3)) // expires soon
			}
			tx.VoteKeyDilution = uint64(1 + r.Intn(1000))
			if r.Intn(3) == 0 && spendable > p.Payouts.GoOnlineFee {
				tx.Fee.Raw = p.Payouts.GoOnlineFee + uint64(r.Intn(3))
			}
		}
	default: // zero payment with rekey
		tx.Type = protocol.PaymentTx
		tx.Receiver = u.addrs[r.Intn(len(u.addrs))]
		switch r.Intn(3) {
		case 0:
			tx.RekeyTo = tx.Sender
		default:
			tx.RekeyTo = u.addrs[u.user()]
		}
	}
	minFee := basics.MicroAlgos{Raw: p.MinTxnFee}
	stx0 := transactions.SignedTxn{Txn: tx}
	if need, _, _ := minFee.FeeForUsage(stx0.FeeFactor(p), 1e6, 0); tx.Fee.Raw < need.Raw {
		tx.Fee = need // big programs / notes cost more than one minimum fee
	}
	return vc18Tx{tx: tx, signer: u.signerFor(ev, s)}
}

func vc18Mod(a, b uint64) uint64 {
	if b == 0 {
		return a
	}
	return a % b
}

// pick an account index satisfying pred, or -1
func (u *vc18U) pick(pred func(i int) bool) int {
	var c []int
	for i := range u.addrs {
		if pred(i) {
			c = append(c, i)
		}
	}
	if len(c) == 0 {
		return -1
	}
	return c[u.r.Intn(len(c))]
}

func (u *vc18U) maybeAddr(zeroOneIn int) basics.Address {
	if u.r.Intn(zeroOneIn) == 0 {
		return basics.Address{}
	}
	return u.addrs[u.user()]
}

// an asset transaction; may move the sender to the account that can issue it.  Choices are
// deliberately sloppy (wrong manager, receiver not opted in, frozen holdings, creator closing
// out, ...) so that the error paths of apply/asset.go are exercised as well.
func (u *vc18U) genAsset(ev *BlockEvaluator, tx *transactions.Transaction, s int) int {
	r := u.r
	hold := func(i int, id uint64) (basics.AssetHolding, bool) {
		h, ok, _ := ev.state.GetAssetHolding(u.addrs[i], basics.AssetIndex(id))
		return h, ok
	}
	var live []uint64
	for _, id := range u.aids {
		if _, ok, _ := ev.state.GetCreator(basics.CreatableIndex(id), basics.AssetCreatable); ok {
			live = append(live, id)
		}
	}
	op := r.Intn(10)
	if len(live) == 0 && r.Intn(6) != 0 {
		op = 0
	}
	id := uint64(0)
	var params basics.AssetParams
	if len(live) > 0 {
		id = live[r.Intn(len(live))]
		c, _, _ := ev.state.GetCreator(basics.CreatableIndex(id), basics.AssetCreatable)
		params, _, _ = ev.state.GetAssetParams(c, basics.AssetIndex(id))
	} else if len(u.aids) > 0 && r.Bool() {
		id = u.aids[r.Intn(len(u.aids))] // destroyed or never created
	} else {
		id = 4242
	}
	to := func(a basics.Address) {
		if !a.IsZero() && r.Intn(8) != 0 {
			tx.Sender = a
			s = u.id(a) - 1
		}
	}
	switch op {
	case 0, 1: // create
		tx.Type = protocol.AssetConfigTx
		tx.AssetParams = basics.AssetParams{Total: []uint64{0, 1, 1000, 1000000, ^uint64(0)}[r.Intn(5)], DefaultFrozen: r.Intn(5) == 0,
			Manager: u.maybeAddr(6), Reserve: u.maybeAddr(3), Freeze: u.maybeAddr(3), Clawback: u.maybeAddr(3)}
		if r.Intn(3) == 0 {
			tx.AssetParams.Manager = tx.Sender
		}
		if r.Intn(4) == 0 {
			tx.AssetParams.UnitName, tx.AssetParams.Decimals = "vc", uint32(r.Intn(5))
		}
	case 2, 3: // opt in
		tx.Type = protocol.AssetTransferTx
		tx.XferAsset = basics.AssetIndex(id)
		tx.AssetReceiver = tx.Sender
	case 4, 5: // transfer from a holder
		tx.Type = protocol.AssetTransferTx
		tx.XferAsset = basics.AssetIndex(id)
		if h := u.pick(func(i int) bool { x, ok := hold(i, id); return ok && x.Amount > 0 }); h >= 0 {
			to(u.addrs[h])
		}
		h, _ := hold(s, id)
		switch r.Intn(4) {
		case 0:
			tx.AssetAmount = h.Amount
		case 1:
			tx.AssetAmount = h.Amount + 1
		default:
			tx.AssetAmount = vc18Mod(r.U64(), h.Amount/2+2)
		}
		if rc := u.pick(func(i int) bool { _, ok := hold(i, id); return ok }); rc >= 0 && r.Intn(5) != 0 {
			tx.AssetReceiver = u.addrs[rc]
		} else {
			tx.AssetReceiver = u.addrs[u.user()]
		}
	case 6: // clawback
		tx.Type = protocol.AssetTransferTx
		tx.XferAsset = basics.AssetIndex(id)
		to(params.Clawback)
		if h := u.pick(func(i int) bool { x, ok := hold(i, id); return ok && x.Amount > 0 }); h >= 0 {
			tx.AssetSender = u.addrs[h]
			x, _ := hold(h, id)
			tx.AssetAmount = vc18Mod(r.U64(), x.Amount+2)
		} else {
			tx.AssetSender = u.addrs[u.user()]
		}
		if rc := u.pick(func(i int) bool { _, ok := hold(i, id); return ok }); rc >= 0 {
			tx.AssetReceiver = u.addrs[rc]
		} else {
			tx.AssetReceiver = u.addrs[u.user()]
		}
	case 7: // close out
		tx.Type = protocol.AssetTransferTx
		tx.XferAsset = basics.AssetIndex(id)
		if h := u.pick(func(i int) bool { _, ok := hold(i, id); return ok && i > 1 }); h >= 0 {
			to(u.addrs[h])
		}
		h, _ := hold(s, id)
		if r.Bool() {
			tx.AssetAmount = vc18Mod(r.U64(), h.Amount+1)
			tx.AssetReceiver = u.addrs[u.user()]
		}
		if rc := u.pick(func(i int) bool { _, ok := hold(i, id); return ok && i != s }); rc >= 0 && r.Intn(4) != 0 {
			tx.AssetCloseTo = u.addrs[rc]
		} else {
			tx.AssetCloseTo = u.addrs[u.user()]
		}
	case 8: // freeze / unfreeze
		tx.Type = protocol.AssetFreezeTx
		tx.FreezeAsset = basics.AssetIndex(id)
		to(params.Freeze)
		if h := u.pick(func(i int) bool { _, ok := hold(i, id); return ok }); h >= 0 && r.Intn(6) != 0 {
			tx.FreezeAccount = u.addrs[h]
		} else {
			tx.FreezeAccount = u.addrs[u.user()]
		}
		tx.AssetFrozen = r.Intn(3) != 0
	default: // reconfigure or destroy
		tx.Type = protocol.AssetConfigTx
		tx.ConfigAsset = basics.AssetIndex(id)
		to(params.Manager)
		if r.Intn(3) != 0 {
			tx.AssetParams = basics.AssetParams{Manager: u.maybeAddr(8), Reserve: u.maybeAddr(3), Freeze: u.maybeAddr(3), Clawback: u.maybeAddr(3)}
			if r.Intn(3) != 0 {
				tx.AssetParams.Manager = params.Manager
			}
		}
	}
	return s
}


// ---------------------------------------------------------------- the interpreter program
// One application argument = one operation, 42 bytes: opcode, five big-endian uint64 operands
// a b c d e, and a "more" flag (the next inner transaction belongs to the same inner group).
//   1 box_create(name a, size b)   2 box_del(name a)        3 box_resize(name a, size b)
//   4 app_global_put(key a, bytes? b)   5 app_global_del(key a)
//   6 app_local_put(account a, key b, bytes? c)   7 app_local_del(account a, key b)
//   8 inner payment(receiver account a, amount b, close-to account c-1 if c>0, fee d)
//   9 inner asset transfer(asset index a, amount b, receiver account c, fee d, close-to account e-1 if e>0)
//  10 err   11 reject (return 0)   12 burn the opcode budget
//  13 inner opt-in of the application account to asset index a (fee d)
//  14 app_params_set(field a: 0 ForeignBoxReads, 1 FamilyBoxAccess; value b)
// Box name i = the first i bytes of "wxyz", state key k = itob(k), values: 7 or "v".
// Accounts are indexes into txn Accounts (0 = sender), assets into txn Assets.
// A creation call (ApplicationID = 0) approves without running anything.
const vc18Interpreter = `#pragma version 13
txn ApplicationID
bz approve
int 0
store 0
int 0
store 7
loop:
load 0
txn NumAppArgs
<
bz approve
load 0
txnas ApplicationArgs
store 1
load 1
int 0
getbyte
store 2
load 1
extract 1 8
btoi
store 3
load 1
extract 9 8
btoi
store 4
load 1
extract 17 8
btoi
store 5
load 1
extract 25 8
btoi
store 6
load 1
extract 33 8
btoi
store 8
load 1
int 41
getbyte
store 9
load 2
switch bad o1 o2 o3 o4 o5 o6 o7 o8 o9 o10 o11 o12 o13 o14
bad:
err
o1:
byte "wxyz"
int 0
load 3
extract3
load 4
box_create
pop
b next
o2:
byte "wxyz"
int 0
load 3
extract3
box_del
pop
b next
o3:
byte "wxyz"
int 0
load 3
extract3
load 4
box_resize
b next
o4:
load 3
itob
load 4
bnz o4b
int 7
app_global_put
b next
o4b:
byte "v"
app_global_put
b next
o5:
load 3
itob
app_global_del
b next
o6:
load 3
txnas Accounts
load 4
itob
load 5
bnz o6b
int 7
app_local_put
b next
o6b:
byte "v"
app_local_put
b next
o7:
load 3
txnas Accounts
load 4
itob
app_local_del
b next
o8:
callsub begin
int pay
itxn_field TypeEnum
load 3
txnas Accounts
itxn_field Receiver
load 4
itxn_field Amount
load 5
bz o8c
load 5
int 1
-
txnas Accounts
itxn_field CloseRemainderTo
o8c:
load 6
itxn_field Fee
b innerend
o9:
callsub begin
int axfer
itxn_field TypeEnum
load 3
txnas Assets
itxn_field XferAsset
load 4
itxn_field AssetAmount
load 5
txnas Accounts
itxn_field AssetReceiver
load 8
bz o9c
load 8
int 1
-
txnas Accounts
itxn_field AssetCloseTo
o9c:
load 6
itxn_field Fee
b innerend
o13:
callsub begin
int axfer
itxn_field TypeEnum
load 3
txnas Assets
itxn_field XferAsset
int 0
itxn_field AssetAmount
global CurrentApplicationAddress
itxn_field AssetReceiver
load 6
itxn_field Fee
b innerend
innerend:
load 9
bnz setmore
itxn_submit
int 0
store 7
b next
setmore:
int 1
store 7
b next
o14:
load 4
load 3
bnz o14b
app_params_set AppForeignBoxReads
b next
o14b:
app_params_set AppFamilyBoxAccess
b next
o10:
err
o11:
int 0
return
o12:
int 1
pop
b o12
next:
load 0
int 1
+
store 0
b loop
begin:
load 7
bnz beginnext
itxn_begin
retsub
beginnext:
itxn_next
retsub
approve:
int 1
return
`

func vc18Program(t *testing.T) []byte {
	ops, err := logic.AssembleString(vc18Interpreter)
	if err != nil {
		t.Fatalf("assembling the interpreter: %v", err)
	}
	return ops.Program
}

func vc18Arg(op byte, a, b, c, d, e uint64, more bool) []byte {
	x := make([]byte, 42)
	x[0] = op
	binary.BigEndian.PutUint64(x[1:], a)
	binary.BigEndian.PutUint64(x[9:], b)
	binary.BigEndian.PutUint64(x[17:], c)
	binary.BigEndian.PutUint64(x[25:], d)
	binary.BigEndian.PutUint64(x[33:], e)
	if more {
		x[41] = 1
	}
	return x
}

// the abstract script of an application call, decoded from its arguments exactly as the
// interpreter reads them
func (u *vc18U) describeApp(t transactions.Transaction) []interface{} {
	acct := func(i uint64) (int, bool) {
		if i == 0 {
			return u.id(t.Sender), true
		}
		if int(i) > len(t.Accounts) {
			return 0, false
		}
		return u.id(t.Accounts[i-1]), true
	}
	asset := func(i uint64) (uint64, bool) {
		if int(i) >= len(t.ForeignAssets) {
			return 0, false
		}
		return uint64(t.ForeignAssets[i]), true
	}
	accept := true
	var ops []interface{}
	var inner []interface{}
	flush := func(more bool) {
		if !more {
			ops = append(ops, vL(vSym("in"), inner))
			inner = nil
		}
	}
	fail := func() { ops = append(ops, vL(vSym("fail"))) }
	if t.ApplicationID != 0 {
	argloop:
		for _, x := range t.ApplicationArgs {
			if len(x) != 42 {
				fail()
				break
			}
			a, b, c := binary.BigEndian.Uint64(x[1:]), binary.BigEndian.Uint64(x[9:]), binary.BigEndian.Uint64(x[17:])
			d, e, more := binary.BigEndian.Uint64(x[25:]), binary.BigEndian.Uint64(x[33:]), x[41] != 0
			switch x[0] {
			case 1:
				ops = append(ops, vL(vSym("bc"), a, a, b))
			case 2:
				ops = append(ops, vL(vSym("bd"), a, a))
			case 3:
				ops = append(ops, vL(vSym("br"), a, a, b))
			case 4:
				ops = append(ops, vL(vSym("gp"), a, b != 0))
			case 5:
				ops = append(ops, vL(vSym("gd"), a))
			case 6, 7:
				ad, ok := acct(a)
				if !ok {
					fail()
					break argloop
				}
				if x[0] == 6 {
					ops = append(ops, vL(vSym("lp"), ad, b, c != 0))
				} else {
					ops = append(ops, vL(vSym("ld"), ad, b))
				}
			case 8:
				rc, ok1 := acct(a)
				cl, ok2 := 0, true
				if c > 0 {
					cl, ok2 = acct(c - 1)
				}
				if !ok1 || !ok2 {
					fail()
					break argloop
				}
				inner = append(inner, vL(d, vL(vSym("pay"), rc, b, cl)))
				flush(more)
			case 9:
				as, ok0 := asset(a)
				rc, ok1 := acct(c)
				cl, ok2 := 0, true
				if e > 0 {
					cl, ok2 = acct(e - 1)
				}
				if !ok0 || !ok1 || !ok2 {
					fail()
					break argloop
				}
				inner = append(inner, vL(d, vL(vSym("axfer"), as, b, 0, rc, cl)))
				flush(more)
			case 13:
				as, ok0 := asset(a)
				if !ok0 {
					fail()
					break argloop
				}
				inner = append(inner, vL(d, vL(vSym("axfer"), as, 0, 0, 1000000+uint64(t.ApplicationID), 0)))
				flush(more)
			case 14:
				if a > 1 {
					fail()
					break argloop
				}
				ops = append(ops, vL(vSym("ps"), a, b != 0))
			case 11:
				accept = false
				break argloop
			default: // 10 err, 12 budget, unknown opcode
				fail()
				break argloop
			}
		}
		if inner != nil { // an inner group that was never submitted: nothing happened
			inner = nil
		}
	}
	return vL(vSym("appl"), uint64(t.ApplicationID), uint64(t.OnCompletion), t.GlobalStateSchema.NumUint, t.GlobalStateSchema.NumByteSlice,
		t.LocalStateSchema.NumUint, t.LocalStateSchema.NumByteSlice, uint64(t.ExtraProgramPages), accept, ops)
}

// an application transaction: creation, funding of an application account, or a call with a
// random script.  May move the sender.
func (u *vc18U) genApp(ev *BlockEvaluator, tx *transactions.Transaction, s int) int {
	r := u.r
	p := ev.proto
	var live []uint64
	for _, id := range u.appids {
		if _, ok, _ := ev.state.GetCreator(basics.CreatableIndex(id), basics.AppCreatable); ok {
			live = append(live, id)
		}
	}
	if len(live) == 0 || (len(live) < 3 && r.Intn(5) == 0) {
		tx.Type = protocol.ApplicationCallTx
		tx.ApprovalProgram, tx.ClearStateProgram = u.prog, u.prog
		tx.GlobalStateSchema = basics.StateSchema{NumUint: uint64(1 + r.Intn(4)), NumByteSlice: uint64(1 + r.Intn(4))}
		tx.LocalStateSchema = basics.StateSchema{NumUint: uint64(1 + r.Intn(3)), NumByteSlice: uint64(r.Intn(3))}
		if r.Intn(6) == 0 {
			tx.GlobalStateSchema, tx.LocalStateSchema = basics.StateSchema{NumUint: uint64(r.Intn(2))}, basics.StateSchema{}
		}
		if r.Intn(4) == 0 {
			tx.ExtraProgramPages = uint32(1 + r.Intn(2))
		}
		if r.Intn(5) == 0 {
			tx.OnCompletion = transactions.OptInOC
		}
		return s
	}
	id := live[r.Intn(len(live))]
	if r.Intn(12) == 0 {
		id = 4243 // no such application
	}
	appAddr := basics.AppIndex(id).Address()
	appBal, _ := ev.state.Get(appAddr, true)
	if id != 4243 && ((appBal.MicroAlgos.Raw < 6*p.MinBalance && r.Intn(4) != 0) || r.Intn(12) == 0) { // fund the application account
		tx.Type = protocol.PaymentTx
		tx.Receiver = appAddr
		tx.Amount.Raw = 3*p.MinBalance + uint64(r.Intn(3000000))
		if b, m := u.balance(ev, s); b < m+tx.Amount.Raw+2*p.MinTxnFee {
			s = 2
			tx.Sender = u.addrs[2]
		}
		return s
	}
	tx.Type = protocol.ApplicationCallTx
	tx.ApplicationID = basics.AppIndex(id)
	switch k := r.Intn(20); {
	case k < 12:
		tx.OnCompletion = transactions.NoOpOC
	case k < 15:
		tx.OnCompletion = transactions.OptInOC
	case k < 16:
		tx.OnCompletion = transactions.CloseOutOC
	case k < 19:
		tx.OnCompletion = transactions.ClearStateOC
	default:
		tx.OnCompletion = transactions.DeleteApplicationOC
	}
	if tx.OnCompletion == transactions.CloseOutOC || tx.OnCompletion == transactions.ClearStateOC {
		// mostly from an account that is opted in
		if o := u.pick(func(i int) bool {
			_, ok, _ := ev.state.GetAppLocalState(u.addrs[i], basics.AppIndex(id))
			return ok
		}); o >= 0 && r.Intn(5) != 0 {
			s = o
			tx.Sender = u.addrs[s]
		}
	}
	tx.Accounts = []basics.Address{u.addrs[u.user()], u.addrs[u.user()]}
	optedIn := func(a basics.Address) bool {
		_, ok, _ := ev.state.GetAppLocalState(a, basics.AppIndex(id))
		return ok
	}
	if o := u.pick(func(i int) bool { return optedIn(u.addrs[i]) }); o >= 0 && r.Intn(4) != 0 {
		tx.Accounts[0] = u.addrs[o]
	}
	localAcct := func() uint64 { // index of an opted-in account if there is one (mostly)
		var c []uint64
		if optedIn(tx.Sender) {
			c = append(c, 0)
		}
		for i, a := range tx.Accounts {
			if optedIn(a) {
				c = append(c, uint64(i+1))
			}
		}
		if len(c) == 0 || r.Intn(6) == 0 {
			return uint64(r.Intn(3))
		}
		return c[r.Intn(len(c))]
	}
	boxName := func(existing bool) uint64 {
		var c []uint64
		for n := 1; n <= 4; n++ {
			if _, ok, _ := ev.state.GetBox(basics.AppIndex(id), vc18BoxName(n)); ok == existing {
				c = append(c, uint64(n))
			}
		}
		if len(c) == 0 || r.Intn(5) == 0 {
			return uint64(1 + r.Intn(4))
		}
		return c[r.Intn(len(c))]
	}
	for _, a := range u.aids {
		if _, ok, _ := ev.state.GetCreator(basics.CreatableIndex(a), basics.AssetCreatable); ok && len(tx.ForeignAssets) < 2 {
			tx.ForeignAssets = append(tx.ForeignAssets, basics.AssetIndex(a))
		}
	}
	for n := 1; n <= 4; n++ {
		tx.Boxes = append(tx.Boxes, transactions.BoxRef{Index: 0, Name: []byte(vc18BoxName(n))})
	}
	nops := r.Intn(7)
	fee := p.MinTxnFee
	if tx.OnCompletion == transactions.ClearStateOC {
		// a ClearState program may fail or reject without failing the transaction: state
		// writes followed (half of the time) by err / reject must then be dropped
		for k := 0; k < 1+r.Intn(3); k++ {
			if r.Bool() {
				tx.ApplicationArgs = append(tx.ApplicationArgs, vc18Arg(4, uint64(1+r.Intn(4)), uint64(r.Intn(2)), 0, 0, 0, false))
			} else {
				tx.ApplicationArgs = append(tx.ApplicationArgs, vc18Arg(6, localAcct(), uint64(1+r.Intn(4)), uint64(r.Intn(2)), 0, 0, false))
			}
		}
		if r.Bool() {
			tx.ApplicationArgs = append(tx.ApplicationArgs, vc18Arg(byte(10+r.Intn(2)), 0, 0, 0, 0, 0, false))
		}
		return s
	}
	nops = r.Intn(5)
	// what the application can afford / has room for right now (mostly respected)
	appMin := appBal.MinBalance(&p).Raw
	spend := uint64(0)
	if appBal.MicroAlgos.Raw > appMin+uint64(nops)*fee {
		spend = appBal.MicroAlgos.Raw - appMin - uint64(nops)*fee
	}
	creator, _, _ := ev.state.GetCreator(basics.CreatableIndex(id), basics.AppCreatable)
	gcnt, _ := ev.state.getStorageCounts(creator, basics.AppIndex(id), true)
	glim, _ := ev.state.getStorageLimits(creator, basics.AppIndex(id), true)
	anyOpted := u.pick(func(i int) bool { return optedIn(u.addrs[i]) }) >= 0
	sloppy := r.Intn(5) == 0
	for k := 0; k < nops; k++ {
		var arg []byte
		o := r.Intn(40)
		if !sloppy {
			switch {
			case o < 11 && spend < p.BoxFlatMinBalance+p.BoxByteMinBalance*64: // boxes need funding
				o = 11
			case o >= 18 && o < 24 && !anyOpted: // local state needs an opted-in account
				o = 11
			}
		}
		switch {
		case o < 6:
			arg = vc18Arg(1, boxName(false), uint64(r.Intn(48)), 0, 0, 0, false)
			if spend > p.BoxFlatMinBalance+p.BoxByteMinBalance*64 {
				spend -= p.BoxFlatMinBalance + p.BoxByteMinBalance*64
			}
		case o < 9:
			arg = vc18Arg(2, boxName(true), 0, 0, 0, 0, false)
		case o < 11:
			arg = vc18Arg(3, boxName(true), uint64(r.Intn(64)), 0, 0, 0, false)
		case o >= 12 && o < 14: // app_params_set
			arg = vc18Arg(14, uint64(r.Intn(2)), uint64(r.Intn(2)), 0, 0, 0, false)
		case o < 16:
			ty := uint64(r.Intn(2))
			if !sloppy { // a type the schema still has room for
				if ty == 1 && gcnt.NumByteSlice >= glim.NumByteSlice {
					ty = 0
				}
				if ty == 0 && gcnt.NumUint >= glim.NumUint {
					ty = 1
				}
			}
			arg = vc18Arg(4, uint64(1+r.Intn(4)), ty, 0, 0, 0, false)
			if ty == 1 {
				gcnt.NumByteSlice++
			} else {
				gcnt.NumUint++
			}
		case o < 18:
			arg = vc18Arg(5, uint64(1+r.Intn(4)), 0, 0, 0, 0, false)
		case o < 22:
			arg = vc18Arg(6, localAcct(), uint64(1+r.Intn(4)), uint64(r.Intn(2)), 0, 0, false)
		case o < 24:
			arg = vc18Arg(7, localAcct(), uint64(1+r.Intn(4)), 0, 0, 0, false)
		case o < 32: // inner payment
			amt := uint64(0)
			if spend > 0 {
				amt = r.U64() % (spend/2 + 1)
			}
			switch r.Intn(10) {
			case 0:
				amt = 0
			case 1:
				amt = spend // down to the minimum balance exactly
			case 2:
				if sloppy {
					amt = appBal.MicroAlgos.Raw // everything: the fee then overspends
				}
			}
			if amt <= spend {
				spend -= amt
			}
			cl := uint64(0)
			if r.Intn(14) == 0 {
				cl = uint64(1 + r.Intn(3))
			}
			arg = vc18Arg(8, uint64(r.Intn(3)), amt, cl, fee, 0, r.Intn(4) == 0 && k+1 < nops)
			if arg[41] == 1 { // the next operation must be an inner transaction as well
				tx.ApplicationArgs = append(tx.ApplicationArgs, arg)
				k++
				arg = vc18Arg(8, uint64(r.Intn(3)), vc18Mod(r.U64(), spend/4+1), 0, fee, 0, false)
			}
		case o < 34 && len(tx.ForeignAssets) > 0:
			arg = vc18Arg(13, uint64(r.Intn(len(tx.ForeignAssets))), 0, 0, fee, 0, false)
		case o < 36 && len(tx.ForeignAssets) > 0:
			arg = vc18Arg(9, uint64(r.Intn(len(tx.ForeignAssets))), uint64(r.Intn(50)), uint64(r.Intn(3)), fee, 0, false)
		case o == 36 && r.Intn(2) == 0:
			arg = vc18Arg(10, 0, 0, 0, 0, 0, false)
		case o == 37 && r.Intn(2) == 0:
			arg = vc18Arg(11, 0, 0, 0, 0, 0, false)
		case o == 38 && r.Intn(3) == 0 && tx.OnCompletion != transactions.ClearStateOC:
			arg = vc18Arg(12, 0, 0, 0, 0, 0, false)
		default:
			arg = vc18Arg(5, uint64(1+r.Intn(4)), 0, 0, 0, 0, false)
		}
		tx.ApplicationArgs = append(tx.ApplicationArgs, arg)
	}
	return s
}

// failure kinds injected into one member of a group
var vc18Faults = []string{"overspend", "minbal", "dead_early", "dead_late", "dup_in_group", "lease",
	"auth", "wf_close_self", "wf_pool_sender", "wf_range", "keyreg_nonpart_acct", "keyreg_expired", "close_with_assets", "genesis",
	"fee_short", "grp_inconsistent", "grp_zero", "grp_incomplete", "grp_toobig", "unknown_type", "minbal_receiver", "sink_spend"}

func (u *vc18U) genGroup(ev *BlockEvaluator, rnd basics.Round, faultPct int, inBlock, prevBlock [][]transactions.SignedTxn) ([]transactions.SignedTxn, string, int) {
	r := u.r
	p := ev.proto
	// "write again, then fail": fresh copies (new notes, hence new txids) of the transactions of a
	// group accepted earlier in THIS block -- so every record they write (account data, asset params /
	// holdings, app params / global / local state, boxes) already has an entry in an ancestor cow --
	// with app_params_set values inverted, followed by a member that overspends.  Whatever the
	// copies wrote must be gone afterwards (no write may reach an ancestor's record in place).
	if len(inBlock) > 0 && r.Intn(100) < u.probePct {
		src := inBlock[r.Intn(len(inBlock))]
		for k := 0; k < 4; k++ { // prefer groups that set application parameters
			c := inBlock[r.Intn(len(inBlock))]
			has := false
			for _, st := range c {
				for _, a := range st.Txn.ApplicationArgs {
					if len(a) == 42 && a[0] == 14 {
						has = true
					}
				}
			}
			if has {
				src = c
				break
			}
		}
		if len(src) < p.MaxTxGroupSize {
			var txs []vc18Tx
			for _, st := range src {
				tx := st.Txn
				tx.Note, tx.Lease, tx.Group = u.note(), [32]byte{}, crypto.Digest{}
				tx.FirstValid, tx.LastValid = rnd, rnd+5
				if len(tx.ApplicationArgs) > 0 {
					args := make([][]byte, len(tx.ApplicationArgs))
					for i, a := range tx.ApplicationArgs {
						args[i] = append([]byte(nil), a...)
						if len(a) == 42 && a[0] == 14 {
							args[i][16] ^= 1 // operand b (the value) is bytes 9..16
						}
					}
					tx.ApplicationArgs = args
				}
				txs = append(txs, vc18Tx{tx: tx, signer: u.signerFor(ev, u.id(tx.Sender)-1)})
			}
			var bad transactions.Transaction
			bs := u.user()
			bal, _ := u.balance(ev, bs)
			bad.Type, bad.Sender, bad.Receiver = protocol.PaymentTx, u.addrs[bs], u.addrs[2]
			bad.Fee.Raw, bad.Amount.Raw = p.MinTxnFee, bal+1
			bad.FirstValid, bad.LastValid, bad.GenesisHash, bad.Note = rnd, rnd+5, u.l.gh, u.note()
			txs = append(txs, vc18Tx{tx: bad, signer: u.signerFor(ev, bs)})
			var g transactions.TxGroup
			for i := range txs {
				g.TxGroupHashes = append(g.TxGroupHashes, crypto.Digest(txs[i].tx.ID()))
			}
			stxs := make([]transactions.SignedTxn, len(txs))
			for i := range txs {
				txs[i].tx.Group = crypto.HashObj(g)
				stxs[i] = txs[i].tx.Sign(u.keys[txs[i].signer])
			}
			return stxs, "probe_rewrite_then_fail", len(txs) - 1
		}
	}
	// resubmission of a whole group accepted earlier (txids include the group id, so a
	// committed transaction can only reappear with its original group)
	if r.Intn(100) < faultPct/8+1 {
		if len(inBlock) > 0 && r.Bool() {
			return inBlock[r.Intn(len(inBlock))], "dup_in_block", 0
		}
		if len(prevBlock) > 0 {
			return prevBlock[r.Intn(len(prevBlock))], "dup_prev_block", 0
		}
	}
	n := 1 + r.Intn(3)
	switch r.Intn(8) {
	case 0:
		n = 1 + r.Intn(16)
	case 1:
		n = 4 + r.Intn(6)
	}
	txs := make([]vc18Tx, n)
	for i := range txs {
		txs[i] = u.genTx(ev, rnd)
	}
	// fee pooling: sometimes one member pays for several
	if n > 1 && r.Intn(4) == 0 {
		payer := r.Intn(n)
		extra := uint64(0)
		for i := range txs {
			if i != payer && r.Bool() {
				extra += txs[i].tx.Fee.Raw
				txs[i].tx.Fee.Raw = 0
			}
		}
		txs[payer].tx.Fee.Raw += extra
	}
	fault, pos := "", -1
	if r.Intn(100) < faultPct {
		fault = vc18Faults[r.Intn(len(vc18Faults))]
		pos = r.Intn(n)
		t := &txs[pos]
		switch fault {
		case "overspend":
			b, _ := u.balance(ev, u.id(t.tx.Sender)-1)
			t.tx.Type, t.tx.KeyregTxnFields, t.tx.RekeyTo = protocol.PaymentTx, transactions.KeyregTxnFields{}, basics.Address{}
			t.tx.Receiver = u.addrs[u.user()]
			t.tx.Amount.Raw = b + uint64(r.Intn(3)) - 1 // b-1, b, b+1: with the fee always too much (fee>0) or exactly to zero
			if r.Intn(3) == 0 {
				t.tx.Amount.Raw = b + uint64(r.Intn(1000000))
			}
		case "minbal":
			b, m := u.balance(ev, u.id(t.tx.Sender)-1)
			t.tx.Type, t.tx.KeyregTxnFields, t.tx.RekeyTo = protocol.PaymentTx, transactions.KeyregTxnFields{}, basics.Address{}
			t.tx.CloseRemainderTo = basics.Address{}
			t.tx.Receiver = u.addrs[u.user()]
			if b > m+t.tx.Fee.Raw {
				t.tx.Amount.Raw = b - m - t.tx.Fee.Raw + 1 + uint64(r.Intn(2))*uint64(r.Intn(int(m)))
			} else {
				t.tx.Amount.Raw = 1
			}
		case "minbal_receiver":
			t.tx.Type, t.tx.KeyregTxnFields = protocol.PaymentTx, transactions.KeyregTxnFields{}
			t.tx.Receiver = u.addrs[7] // the empty account (if still empty): below the minimum
			t.tx.Amount.Raw = 1 + uint64(r.Intn(int(p.MinBalance)-1))
		case "dead_early":
			t.tx.FirstValid = rnd + 1 + basics.Round(r.Intn(3))
			t.tx.LastValid = t.tx.FirstValid + 5
		case "dead_late":
			t.tx.LastValid = rnd.SubSaturate(1 + basics.Round(r.Intn(2)))
			t.tx.FirstValid = t.tx.LastValid.SubSaturate(3)
		case "dup_in_group":
			if n > 1 {
				src := r.Intn(n)
				if src == pos {
					src = (pos + 1) % n
				}
				*t = txs[src]
			} else {
				fault = ""
			}
		case "lease":
			// reuse a lease of a transaction accepted earlier in this block by the same sender
			fault = ""
			for _, cg := range inBlock {
				for _, c := range cg {
					if c.Txn.Lease != ([32]byte{}) && fault == "" {
						t.tx.Sender, t.tx.Lease = c.Txn.Sender, c.Txn.Lease
						t.signer = u.signerFor(ev, u.id(c.Txn.Sender)-1)
						fault = "lease"
					}
				}
			}
			if fault == "" && n > 1 { // or two members of this group with the same lease
				o := (pos + 1) % n
				txs[o].tx.Lease[0] = 9
				t.tx.Lease = txs[o].tx.Lease
				t.tx.Sender, t.signer = txs[o].tx.Sender, txs[o].signer
				fault = "lease"
			}
		case "auth":
			t.signer = (t.signer + 1 + r.Intn(len(u.keys)-1)) % len(u.keys)
		case "wf_close_self":
			t.tx.Type, t.tx.KeyregTxnFields = protocol.PaymentTx, transactions.KeyregTxnFields{}
			t.tx.CloseRemainderTo = t.tx.Sender
		case "wf_pool_sender":
			t.tx.Sender, t.signer = u.addrs[vc18Pool], vc18Pool
		case "sink_spend":
			t.tx.Type, t.tx.KeyregTxnFields = protocol.PaymentTx, transactions.KeyregTxnFields{}
			t.tx.Sender, t.signer = u.addrs[vc18Sink], vc18Sink
			t.tx.Receiver = u.addrs[r.Intn(len(u.addrs))]
			t.tx.Amount.Raw = uint64(r.Intn(1000))
			t.tx.CloseRemainderTo, t.tx.RekeyTo = basics.Address{}, basics.Address{}
		case "wf_range":
			t.tx.FirstValid, t.tx.LastValid = rnd+1, rnd
			if r.Bool() {
				t.tx.FirstValid, t.tx.LastValid = rnd, rnd+basics.Round(p.MaxTxnLife)+1
			}
		case "keyreg_nonpart_acct":
			t.tx = transactions.Transaction{Type: protocol.KeyRegistrationTx, Header: t.tx.Header}
			t.tx.Sender, t.signer = u.addrs[4], 4
			t.tx.RekeyTo = basics.Address{}
		case "keyreg_expired":
			t.tx = transactions.Transaction{Type: protocol.KeyRegistrationTx, Header: t.tx.Header}
			t.tx.RekeyTo = basics.Address{}
			t.tx.VotePK[0], t.tx.SelectionPK[0], t.tx.StateProofPK[0] = 11, 21, 31
			t.tx.VoteKeyDilution = 10
			if r.Bool() {
				t.tx.VoteFirst, t.tx.VoteLast = rnd.SubSaturate(2), rnd // last <= round
			} else {
				t.tx.VoteFirst, t.tx.VoteLast = rnd+2, rnd+100 // first > round+1
				t.tx.LastValid = rnd + 5
			}
		case "close_with_assets":
			t.tx = transactions.Transaction{Type: protocol.PaymentTx, Header: t.tx.Header}
			t.tx.Sender, t.signer = u.addrs[8], u.signerFor(ev, 8)
			t.tx.RekeyTo = basics.Address{}
			t.tx.Receiver = u.addrs[2]
			t.tx.CloseRemainderTo = u.addrs[2]
		case "genesis":
			t.tx.GenesisHash[0] ^= 0xff
		case "unknown_type":
			t.tx.Type = "zzz"
		}
	}
	// group ids
	stxs := make([]transactions.SignedTxn, n)
	var g transactions.TxGroup
	for i := range txs {
		txs[i].tx.Group = crypto.Digest{}
		g.TxGroupHashes = append(g.TxGroupHashes, crypto.Digest(txs[i].tx.ID()))
	}
	gid := crypto.HashObj(g)
	useGroup := n > 1 || r.Intn(6) == 0
	for i := range txs {
		if useGroup {
			txs[i].tx.Group = gid
		}
	}
	switch fault {
	case "fee_short":
		// total fee below n * minfee
		tot := uint64(n)*p.MinTxnFee - 1 - uint64(r.Intn(int(p.MinTxnFee)))
		for i := range txs {
			txs[i].tx.Fee.Raw = 0
		}
		txs[pos].tx.Fee.Raw = tot
		if n > 1 && r.Bool() {
			o := (pos + 1) % n
			txs[o].tx.Fee.Raw = tot / 2
			txs[pos].tx.Fee.Raw = tot - tot/2
		}
	case "grp_inconsistent":
		if n > 1 {
			txs[pos].tx.Group[3] ^= 0x55
		} else {
			fault = ""
		}
	case "grp_zero":
		if n > 1 {
			if r.Bool() {
				txs[pos].tx.Group = crypto.Digest{}
			} else {
				for i := range txs {
					txs[i].tx.Group = crypto.Digest{}
				}
			}
		} else {
			fault = ""
		}
	case "grp_incomplete":
		var w crypto.Digest
		copy(w[:], r.Bytes(32))
		for i := range txs {
			txs[i].tx.Group = w
		}
	case "grp_toobig":
		for len(txs) <= p.MaxTxGroupSize {
			txs = append(txs, u.genTx(ev, rnd))
		}
		stxs = make([]transactions.SignedTxn, len(txs))
		g = transactions.TxGroup{}
		for i := range txs {
			txs[i].tx.Group = crypto.Digest{}
			g.TxGroupHashes = append(g.TxGroupHashes, crypto.Digest(txs[i].tx.ID()))
		}
		for i := range txs {
			txs[i].tx.Group = crypto.HashObj(g)
		}
	}
	if fault == "fee_short" {
		// fees changed: recompute the (correct) group id
		g = transactions.TxGroup{}
		for i := range txs {
			txs[i].tx.Group = crypto.Digest{}
			g.TxGroupHashes = append(g.TxGroupHashes, crypto.Digest(txs[i].tx.ID()))
		}
		if useGroup {
			for i := range txs {
				txs[i].tx.Group = crypto.HashObj(g)
			}
		}
	}
	for i := range txs {
		stxs[i] = txs[i].tx.Sign(u.keys[txs[i].signer])
	}
	return stxs, fault, pos
}

// ---------------------------------------------------------------- abstract descriptors
func (u *vc18U) describe(ev *BlockEvaluator, stxs []transactions.SignedTxn) []interface{} {
	var g transactions.TxGroup
	for _, s := range stxs {
		t := s.Txn
		t.Group = crypto.Digest{}
		g.TxGroupHashes = append(g.TxGroupHashes, crypto.Digest(t.ID()))
	}
	correct := crypto.HashObj(g)
	wrong := map[crypto.Digest]int{}
	var out []interface{}
	for _, s := range stxs {
		t := s.Txn
		grp := 0
		switch {
		case t.Group.IsZero():
		case t.Group == correct:
			grp = 1
		default:
			if _, ok := wrong[t.Group]; !ok {
				wrong[t.Group] = 2 + len(wrong)
			}
			grp = wrong[t.Group]
		}
		wf := t.WellFormed(ev.specials, ev.proto) == nil
		genok := t.GenesisID == "" && t.GenesisHash == u.l.gh
		var body []interface{}
		switch t.Type {
		case protocol.PaymentTx:
			body = vL(vSym("pay"), u.id(t.Receiver), t.Amount.Raw, u.id(t.CloseRemainderTo))
		case protocol.KeyRegistrationTx:
			body = vL(vSym("keyreg"), vc18KeyID(t.VotePK[:]), vc18KeyID(t.SelectionPK[:]), vc18KeyID(t.StateProofPK[:]),
				uint64(t.VoteFirst), uint64(t.VoteLast), t.VoteKeyDilution, t.Nonparticipation)
		case protocol.ApplicationCallTx:
			body = u.describeApp(t)
		case protocol.AssetConfigTx:
			body = append(vL(vSym("acfg"), uint64(t.ConfigAsset)), u.aparams(t.AssetParams)...)
		case protocol.AssetTransferTx:
			body = vL(vSym("axfer"), uint64(t.XferAsset), t.AssetAmount, u.id(t.AssetSender), u.id(t.AssetReceiver), u.id(t.AssetCloseTo))
		case protocol.AssetFreezeTx:
			body = vL(vSym("afrz"), uint64(t.FreezeAsset), u.id(t.FreezeAccount), t.AssetFrozen)
		default:
			body = vL(vSym("other"))
		}
		out = append(out, vL(u.id(t.Sender), t.Fee.Raw, uint64(t.FirstValid), uint64(t.LastValid), u.lease(t.Lease), genok, wf,
			u.id(s.Authorizer()), grp, u.txid(t.ID()), uint64(s.FeeFactor(ev.proto)), u.id(t.RekeyTo), body))
	}
	return out
}

// ---------------------------------------------------------------- main loop
type vc18Opts struct {
	universes, blocks, groups int // per universe: blocks; per block: up to groups
	faultPct                  int
	assetWeight               int
	appWeight                 int
	panicPct                  int // share of groups with an injected panic (no tracer involved)
	probePct                  int // share of "write again, then fail" groups
	file                      string
	salt                      uint64
}

func vc18Run(t *testing.T, o vc18Opts) {
	r := vNewRand(o.salt)
	out := vOpen(o.file)
	defer out.Close()
	st := map[string]int{}
	for un := 0; un < o.universes; un++ {
		u := vc18NewUniverse(t, r, st)
		u.assetWeight = o.assetWeight
		u.appWeight = o.appWeight
		u.probePct = o.probePct
		var prevBlock [][]transactions.SignedTxn
		for b := 0; b < o.blocks && !u.dead; b++ {
			prevBlock = u.block(t, out, o, prevBlock)
		}
	}
	stats := map[string]interface{}{}
	for k, v := range st {
		stats[k] = v
	}
	vStats(stats)
}

func (u *vc18U) block(t *testing.T, out *vOut, o vc18Opts, prevBlock [][]transactions.SignedTxn) [][]transactions.SignedTxn {
	r, l, st := u.r, u.l, u.st
	prev := l.hdrs[l.latest()]
	hdr := bookkeeping.MakeBlock(prev).BlockHeader
	rnd := hdr.Round
	base := u.ledgerTable()
	var baseTx []interface{}
	{
		var ids []int
		for id := range l.txids {
			ids = append(ids, u.txid(id))
		}
		sort.Ints(ids)
		for _, i := range ids {
			baseTx = append(baseTx, i)
		}
	}
	baseAssets, _ := u.ledgerAview()
	baseRows := u.ledgerAppRows(true)
	ru := l.totals.RewardUnits()
	ev, err := StartEvaluator(l, hdr, EvaluatorOptions{Validate: true, Generate: true})
	if err != nil {
		// e.g. the pool cannot pay the rewards any more: nothing to observe, stop this universe
		st["start_err"]++
		u.dead = true
		t.Logf("StartEvaluator: %v", err)
		return nil
	}
	st["blocks"]++
	if ev.state.rewardsLevel() > prev.RewardsLevel {
		st["blocks_with_rewards"]++
	}
	hd := vL(uint64(rnd), prev.RewardsLevel, ev.state.rewardsLevel(), ru, vc18Sink+1, vc18Pool+1, 0, prev.TxnCounter, len(u.addrs))
	startObs := u.snap(ev)
	var groups []interface{}
	var inBlock [][]transactions.SignedTxn
	sab := 0
	ng := 1 + r.Intn(o.groups)
	for gi := 0; gi < ng; gi++ {
		stxs, fault, pos := u.genGroup(ev, rnd, o.faultPct, inBlock, prevBlock)
		desc := u.describe(ev, stxs)
		// panic injection without a tracer: (a) the ledger's CheckDup panics while transaction i of
		// the loop is evaluated; (b) the parent cow's Txids / sdeltas map is set to nil (only while
		// it is still empty, so nothing observable changes), which makes commitToParent panic at its
		// first write to it -- after the Payset append and the earlier merge steps
		loopAt := -1
		if !ev.corruptedState && sab == 0 && r.Intn(100) < o.panicPct {
			switch k := r.Intn(3); {
			case k == 1 && len(ev.state.mods.Txids) == 0:
				ev.state.mods.Txids = nil
				sab = 1
			case k == 2 && len(ev.state.sdeltas) == 0:
				ev.state.sdeltas = nil
				sab = 2
			default:
				loopAt = r.Intn(len(stxs))
				id := stxs[loopAt].ID()
				for j := range stxs { // a duplicated member: the lookup panics at its FIRST occurrence
					if stxs[j].ID() == id {
						loopAt = j
						break
					}
				}
				l.panicTxid, l.panicFired = &id, false
			}
		}
		before := len(ev.block.Payset)
		err := ev.TransactionGroup(transactions.WrapSignedTxnsWithAD(stxs)...)
		l.panicTxid = nil
		var inj interface{} = 0
		switch {
		case loopAt >= 0 && l.panicFired:
			inj = vL(vSym("loop"), loopAt)
			st["inject_loop_fired"]++
		case sab != 0:
			inj = vL(vSym("sab"), sab)
			st[fmt.Sprintf("inject_sab%d_group", sab)]++
		}
		if err == nil {
			u.learnIDs(ev.block.Payset[before:])
		}
		code := vc18ErrClass(err)
		if code == 99 {
			t.Fatalf("unclassified group error %v", err)
		}
		if code == 15 && loopAt < 0 && sab == 0 {
			st["panic_not_injected"]++
			t.Logf("round %d group %d (%s): panic that was NOT injected: %v", rnd, gi, fault, err)
		}
		if ev.corruptedState {
			st["groups_on_corrupted"]++
		}
		groups = append(groups, vL(desc, 0, code, u.snap(ev), inj))
		st["groups"]++
		st[fmt.Sprintf("group_size_%02d", len(stxs))]++
		if fault != "" {
			st["fault_"+fault]++
			if code != 0 {
				st[fmt.Sprintf("fault_pos_%02d", pos)]++
			}
		}
		st[fmt.Sprintf("code_%02d", code)]++
		if err == nil {
			inBlock = append(inBlock, stxs)
			for _, s := range stxs {
				st["accepted_"+string(s.Txn.Type)]++
				if s.Txn.Type == protocol.ApplicationCallTx {
					st[fmt.Sprintf("accepted_appl_oc%d", s.Txn.OnCompletion)]++
					if s.Txn.ApplicationID == 0 {
						st["accepted_appl_create"]++
					} else {
						for _, a := range s.Txn.ApplicationArgs {
							st[fmt.Sprintf("accepted_appop_%02d", a[0])]++
						}
					}
				}
				if !s.Txn.CloseRemainderTo.IsZero() {
					st["accepted_close"]++
				}
			}
		}
	}
	// finish: generate, choose a proposer, validate (performs the payout), commit.  When the
	// real code refuses its own block (e.g. CalculateTotals: "sum of money changed") the case is
	// still written -- the per-group observations tell what went wrong -- and the universe ends.
	giveUp := func(why string, err error) [][]transactions.SignedTxn {
		st["block_refused_"+why]++
		fav, fcr := u.ledgerAview()
		end := vL(vL(), vL(), 0, 0, 19, u.ledgerTable(), fav, fcr, u.ledgerAppRows(false))
		out.Case(vSym("blk"), vc18Params(l.proto), hd, base, baseTx, baseAssets, u.aidList(), baseRows, u.appList(), startObs, groups, end)
		u.dead = true
		t.Logf("block %d refused (%s): %v", rnd, why, err)
		return nil
	}
	if ev.corruptedState {
		// the evaluator must now refuse to produce a block; the round is started over
		st["blocks_corrupted"]++
		_, gerr := ev.GenerateBlock(nil)
		fav, fcr := u.ledgerAview()
		end := vL(vL(), vL(), 0, 0, vc18ErrClass(gerr), u.ledgerTable(), fav, fcr, u.ledgerAppRows(false))
		out.Case(vSym("blk"), vc18Params(l.proto), hd, base, baseTx, baseAssets, u.aidList(), baseRows, u.appList(), startObs, groups, end)
		return prevBlock
	}
	ub, err := ev.GenerateBlock(nil)
	if err != nil {
		return giveUp("generate", err)
	}
	var seed committee.Seed
	copy(seed[:], r.Bytes(32))
	prop := 2 + r.Intn(len(u.addrs)-2)
	elig := r.Intn(4) != 0
	blk := ub.UnfinishedBlock().WithProposer(seed, u.addrs[prop], elig)
	delta, err := Eval(context.Background(), l, blk, true, verify.GetMockedCache(true), nil, nil)
	endCode := 0
	if err != nil {
		// e.g. a closed proposer asking for a payout: agreement would have zeroed it
		st["end_retry"]++
		blk = ub.UnfinishedBlock().WithProposer(seed, u.addrs[prop], false)
		delta, err = Eval(context.Background(), l, blk, true, verify.GetMockedCache(true), nil, nil)
		if err != nil {
			return giveUp("validate", err)
		}
	}
	if blk.ProposerPayout().Raw > 0 {
		st["blocks_with_payout"]++
	}
	var expired, absent []interface{}
	for _, a := range blk.ExpiredParticipationAccounts {
		expired = append(expired, u.id(a))
	}
	for _, a := range blk.AbsentParticipationAccounts {
		absent = append(absent, u.id(a))
	}
	if len(expired) > 0 {
		st["blocks_with_expired"]++
	}
	if len(absent) > 0 {
		st["blocks_with_absent"]++
	}
	l.add(blk, delta)
	fav, fcr := u.ledgerAview()
	end := vL(expired, absent, u.id(blk.Proposer()), blk.ProposerPayout().Raw, endCode, u.ledgerTable(), fav, fcr, u.ledgerAppRows(false))
	out.Case(vSym("blk"), vc18Params(l.proto), hd, base, baseTx, baseAssets, u.aidList(), baseRows, u.appList(), startObs, groups, end)
	return append(prevBlock, inBlock...)
}

func TestVerifC18(t *testing.T) {
	vc18Run(t, vc18Opts{universes: vEnvInt("VERIF_C18_UNIVERSES", 12), blocks: vEnvInt("VERIF_C18_BLOCKS", 8),
		groups: vEnvInt("VERIF_C18_GROUPS", 10), faultPct: vEnvInt("VERIF_C18_FAULTPCT", 25), assetWeight: vEnvInt("VERIF_C18_ASSETS", 8), appWeight: vEnvInt("VERIF_C18_APPS", 16), panicPct: vEnvInt("VERIF_C18_PANICS", 2), probePct: vEnvInt("VERIF_C18_PROBES", 4),
		file: "cases_c18.txt", salt: 0xC18})
}

// ---------------------------------------------------------------- replay of C18_expire_nonparticipating_refuted
// (not part of the check run; go test -run TestVerifC18ProbeExpireNonPart -v)
// a NotParticipating account that kept a vote key (possible before the keyreg coherency
// check) is touched by a payment while rewards accrue: what does GenerateBlock do?
func TestVerifC18ProbeExpireNonPart(t *testing.T) {
	r := vNewRand(7)
	st := map[string]int{}
	u := vc18NewUniverse(t, r, st)
	l := u.l
	d := l.accts[u.addrs[4]]
	d.VoteID[0] = 5
	d.VoteLastValid = 1
	l.accts[u.addrs[4]] = d
	l.hdrs[0].RewardsRate = l.totals.RewardUnits() * 50
	for b := 0; b < 3; b++ {
		prev := l.hdrs[l.latest()]
		hdr := bookkeeping.MakeBlock(prev).BlockHeader
		ev, err := StartEvaluator(l, hdr, EvaluatorOptions{Validate: true, Generate: true})
		if err != nil {
			t.Fatal(err)
		}
		var tx transactions.Transaction
		tx.Type = protocol.PaymentTx
		tx.Sender, tx.Receiver = u.addrs[2], u.addrs[4]
		tx.Fee.Raw = 1000
		tx.FirstValid, tx.LastValid = hdr.Round, hdr.Round+5
		tx.GenesisHash = l.gh
		tx.Amount.Raw = 0
		if b == 2 {
			err = ev.TransactionGroup(tx.Sign(u.keys[2]).WithAD())
			t.Logf("round %d: payment to the account: %v", hdr.Round, err)
		}
		ub, err := ev.GenerateBlock(nil)
		t.Logf("round %d level %d: GenerateBlock err = %v", hdr.Round, ev.state.rewardsLevel(), err)
		if err != nil {
			return
		}
		t.Logf("  expired list: %v", ub.UnfinishedBlock().ExpiredParticipationAccounts)
		l.add(ub.UnfinishedBlock().WithProposer([32]byte{}, basics.Address{}, false), ub.UnfinishedDeltas())
	}
}
