//go:build verif

package eval

// C25 (second mechanism) harness: drives the REAL StartEvaluator on the package's in-memory
// test ledger (newTestLedger) and observes the rewards-pool withdrawal.
//   (pool prevLevel newLevel poolOld units minBalance OBS)   OBS = (ok poolNew) | (err levels|withdraw|minbalance)
// raw mode      : Validate=false, Generate=false: the header's RewardsLevel is taken as given,
//                 so arbitrary level pairs reach the withdrawal segment;
// generate mode : Generate=true: StartEvaluator itself computes the header's rewards state with
//                 NextRewardsState and then withdraws; emits the matching (nrs ...) case as well
//                 (composition of the two mechanisms on the real code path).
// The pool account is NotParticipating (as on every network) so Get(pool, true) is its balance.
// MinBalance / RewardsRateRefreshInterval are set on a test protocol version registered in
// config.Consensus for the duration of the test and read back into each case line.

import (
	"io"
	"math/bits"
	"strings"
	"testing"

	"github.com/algorand/go-algorand/config"
	"github.com/algorand/go-algorand/data/basics"
	"github.com/algorand/go-algorand/data/bookkeeping"
	"github.com/algorand/go-algorand/ledger/ledgercore"
	ledgertesting "github.com/algorand/go-algorand/ledger/testing"
	"github.com/algorand/go-algorand/logging"
	"github.com/algorand/go-algorand/protocol"
)

const vC25Ver = protocol.ConsensusVersion("verif-c25pool")

func TestVerifC25Pool(t *testing.T) {
	out := vOpen("cases_c25pool.txt")
	defer out.Close()
	logging.Base().SetOutput(io.Discard)
	rnd := vNewRand(2525)
	n := vEnvInt("VERIF_C25POOL_N", 3000)

	genesisInitState, _, _ := ledgertesting.Genesis(4)
	l := newTestLedger(t, bookkeeping.GenesisBalances{
		Balances: genesisInitState.Accounts, FeeSink: testSinkAddr, RewardsPool: testPoolAddr})
	base := config.Consensus[protocol.ConsensusFuture]
	defer delete(config.Consensus, vC25Ver)
	genesis := l.blocks[0]
	poolAddr := genesis.RewardsPool

	stats := map[string]int{}
	classify := func(err error) interface{} {
		m := err.Error()
		switch {
		case strings.Contains(m, "overflowed subtracting rewards(") && strings.Contains(m, "levels"):
			return vL(vSym("err"), vSym("levels"))
		case strings.Contains(m, "overflowed subtracting reward unit"):
			return vL(vSym("err"), vSym("withdraw"))
		case strings.Contains(m, "overflowed subtracting rewards for block"):
			return vL(vSym("err"), vSym("minbalance"))
		}
		return vL(vSym("err"), vSym("other"), m)
	}

	// one call of the real StartEvaluator
	run := func(prev bookkeeping.RewardsState, newLevel, poolOld, units, minBal, interval uint64, generate bool) {
		p := base
		p.MinBalance = minBal
		p.RewardsRateRefreshInterval = interval
		config.Consensus[vC25Ver] = p
		p = config.Consensus[vC25Ver] // what the running code will see
		// previous block (round 0) and ledger state as of round 0
		g := genesis
		g.BlockHeader.RewardsState.RewardsLevel = prev.RewardsLevel
		g.BlockHeader.RewardsState.RewardsRate = prev.RewardsRate
		g.BlockHeader.RewardsState.RewardsResidue = prev.RewardsResidue
		g.BlockHeader.RewardsState.RewardsRecalculationRound = prev.RewardsRecalculationRound
		l.blocks[0] = g
		l.roundBalances[0][poolAddr] = basics.AccountData{MicroAlgos: basics.MicroAlgos{Raw: poolOld}, Status: basics.NotParticipating}
		l.latestTotals = ledgercore.AccountTotals{}
		l.latestTotals.Offline.RewardUnits = units
		hdr := bookkeeping.BlockHeader{Round: 1, GenesisID: g.BlockHeader.GenesisID, GenesisHash: g.BlockHeader.GenesisHash}
		hdr.CurrentProtocol = vC25Ver
		hdr.FeeSink, hdr.RewardsPool = g.BlockHeader.FeeSink, g.BlockHeader.RewardsPool
		hdr.RewardsState.RewardsLevel = newLevel
		if generate {
			// the level the real NextRewardsState yields (StartEvaluator recomputes it itself)
			func() {
				defer func() {
					if r := recover(); r != nil {
						generate = false // zero interval at a refresh: StartEvaluator would panic too; skip
						stats["generate_skipped_panic"]++
					}
				}()
				ns := g.BlockHeader.RewardsState.NextRewardsState(1, p, basics.MicroAlgos{Raw: poolOld}, units, logging.Base())
				newLevel = ns.RewardsLevel
				out.Case(vSym("nrs"), prev.RewardsLevel, prev.RewardsRate, prev.RewardsResidue, uint64(prev.RewardsRecalculationRound), 1,
					p.MinBalance, p.RewardsRateRefreshInterval, p.PendingResidueRewards, p.RewardsCalculationFix, poolOld, units,
					vL(vSym("ok"), ns.RewardsLevel, ns.RewardsRate, ns.RewardsResidue, uint64(ns.RewardsRecalculationRound), true))
			}()
			if !generate {
				return
			}
		}
		ev, err := StartEvaluator(l, hdr, EvaluatorOptions{Validate: false, Generate: generate})
		var obs interface{}
		if err != nil {
			obs = classify(err)
			stats["rejected"]++
		} else {
			if generate && ev.block.RewardsLevel != newLevel {
				obs = vL(vSym("err"), vSym("other"), "generated level differs from NextRewardsState")
			} else {
				acct, gerr := ev.state.Get(poolAddr, false)
				if gerr != nil {
					obs = vL(vSym("err"), vSym("other"), gerr.Error())
				} else {
					obs = vL(vSym("ok"), acct.MicroAlgos.Raw)
				}
			}
			stats["accepted"]++
		}
		if generate {
			stats["generate_mode"]++
		} else {
			stats["raw_mode"]++
		}
		out.Case(vSym("pool"), prev.RewardsLevel, newLevel, poolOld, units, p.MinBalance, obs)
	}

	pm1 := func(x uint64) uint64 { return x + uint64(rnd.Intn(3)) - 1 }
	for i := 0; i < n; i++ {
		// ---- raw mode: boundary-heavy level pairs / units / pool around withdrawal + MinBalance
		prevLevel := rnd.Edge64()
		d := rnd.Edge64()
		if i%2 == 0 {
			d = uint64(rnd.Intn(2000))
		}
		units := rnd.Edge64()
		if i%2 == 0 {
			units = uint64(rnd.Intn(100000))
		}
		if i%23 == 0 {
			units = 0
		}
		newLevel := prevLevel + d // may wrap: then newLevel < prevLevel
		if i%13 == 0 {
			newLevel = prevLevel - uint64(1+rnd.Intn(3))
		}
		minBal := []uint64{0, 1, 100000, base.MinBalance, rnd.Edge64()}[rnd.Intn(5)]
		hi, amount := bits.Mul64(units, newLevel-prevLevel)
		var pool uint64
		switch rnd.Intn(6) {
		case 0:
			pool = pm1(amount + minBal) // the exact boundary of the rule, +-1
		case 1:
			pool = pm1(amount) // pays out, nothing (or -1) left
		case 2:
			pool = pm1(minBal) // enough BEFORE the withdrawal only
		case 3:
			pool = amount + minBal + uint64(rnd.Intn(1000000))
		case 4:
			pool = rnd.Edge64()
		default:
			pool = ^uint64(0) - uint64(rnd.Intn(3))
		}
		if hi != 0 {
			stats["product_overflows"]++
		}
		run(bookkeeping.RewardsState{RewardsLevel: prevLevel}, newLevel, pool, units, minBal, 1000, false)

		// ---- generate mode: rewards state computed by the real NextRewardsState inside StartEvaluator
		units = uint64(rnd.Intn(50000))
		rate := uint64(rnd.Intn(1000000))
		if i%7 == 0 {
			rate = rnd.Edge64() // overflowing rates
		}
		residue := uint64(0)
		if units > 0 {
			residue = rnd.U64() % units
		}
		if i%11 == 0 {
			residue = rnd.Edge64()
		}
		recalc := uint64(1 + rnd.Intn(2)) // round 1 = refresh, 2 = no refresh
		interval := uint64(1 + rnd.Intn(5))
		if i%97 == 0 {
			interval = 0
		}
		minBal = []uint64{0, 100000, base.MinBalance}[rnd.Intn(3)]
		prev := bookkeeping.RewardsState{RewardsLevel: uint64(rnd.Intn(1000000)), RewardsRate: rate, RewardsResidue: residue,
			RewardsRecalculationRound: basics.Round(recalc)}
		if i%19 == 0 {
			prev.RewardsLevel = ^uint64(0) - uint64(rnd.Intn(50))
		}
		pool = pm1(minBal + rate + residue)
		switch rnd.Intn(4) {
		case 0:
			pool = pm1(minBal)
		case 1:
			pool = minBal + rate*interval + residue + uint64(rnd.Intn(1000))
		case 2:
			pool = rnd.Edge64()
		}
		run(prev, 0, pool, units, minBal, interval, true)
	}
	st := map[string]interface{}{}
	for k, v := range stats {
		st[k] = v
	}
	vStats(st)
}
