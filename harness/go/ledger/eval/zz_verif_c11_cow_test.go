//go:build verif

package eval

// C11 harness, evaluator side: random scripts on the real roundCowState (child / addTx /
// commitToParent / discard / checkDup) over a parent whose checkDup answer is scripted.
// One case line = one script:
//
//   (cow (hdrRound sup) (op ...))
//     (c)                          push: top = top.child(hint)
//     (a id lv snd lease)          top.addTx
//     (m)                          top.commitToParent(); pop            (depth >= 2)
//     (x)                          discard top (pop without commit)     (depth >= 2)
//     (q id snd lease base obs)    top.checkDup with the base ledger answering `base`
//                                  (0 nil, 1 TransactionInLedger, 2 LeaseInLedger);
//                                  obs: 0 nil, 1/2 the ledger's error, 4 TransactionInLedger
//                                  (InBlockEvaluator), 5 LeaseInLedger (InBlockEvaluator)
//     (d (id ...) ((snd lease exp) ...))   root.mods: Txids in Intra order, Txleases sorted

import (
	"encoding/binary"
	"errors"
	"fmt"
	"sort"
	"testing"

	"github.com/algorand/go-algorand/config"
	"github.com/algorand/go-algorand/data/basics"
	"github.com/algorand/go-algorand/data/bookkeeping"
	"github.com/algorand/go-algorand/data/transactions"
	"github.com/algorand/go-algorand/ledger/ledgercore"
	"github.com/algorand/go-algorand/protocol"
)

type vc11Base struct {
	mockLedger
	answer int
}

func (b *vc11Base) checkDup(firstValid, lastValid basics.Round, txid transactions.Txid, txl ledgercore.Txlease) error {
	switch b.answer {
	case 1:
		return &ledgercore.TransactionInLedgerError{Txid: txid, InBlockEvaluator: false}
	case 2:
		return ledgercore.MakeLeaseInLedgerError(txid, txl, false)
	}
	return nil
}

func vc11cTxid(id uint64) (t transactions.Txid) {
	binary.BigEndian.PutUint64(t[0:8], id)
	t[31] = 0xc1
	return
}

func vc11cAddr(s uint64) (a basics.Address) {
	binary.BigEndian.PutUint64(a[8:16], s)
	a[0] = 0xad
	return
}

func vc11cLease(l uint64) (x [32]byte) {
	if l != 0 {
		binary.BigEndian.PutUint64(x[16:24], l)
	}
	return
}

func TestVerifC11Cow(t *testing.T) {
	out := vOpen("cases_c11_cow.txt")
	defer out.Close()
	rnd := vNewRand(1111)
	n := vEnvInt("VERIF_C11_COW_N", 4000)
	st := map[string]int{}
	for i := 0; i < n; i++ {
		sup := rnd.Intn(8) != 0
		hdrRound := uint64(5 + rnd.Intn(10))
		proto := config.Consensus[protocol.ConsensusCurrentVersion]
		proto.SupportTransactionLeases = sup
		base := &vc11Base{mockLedger: mockLedger{balanceMap: map[basics.Address]basics.AccountData{}}}
		hdr := bookkeeping.BlockHeader{Round: basics.Round(hdrRound)}
		root := makeRoundCowState(base, hdr, proto, 0, ledgercore.AccountTotals{}, 4)
		stack := []*roundCowState{root}
		var ops []interface{}
		nextID := uint64(1)
		var used []uint64
		nops := 4 + rnd.Intn(30)
		for j := 0; j < nops; j++ {
			top := stack[len(stack)-1]
			switch k := rnd.Intn(100); {
			case k < 15 && len(stack) < 4:
				stack = append(stack, top.child(1+rnd.Intn(3)))
				ops = append(ops, vL(vSym("c")))
				st["child"]++
			case k < 45:
				id := nextID
				nextID++
				used = append(used, id)
				lv := hdrRound + uint64(rnd.Intn(4))
				if rnd.Intn(6) == 0 { // expired holder: lease check must not fire
					lv = hdrRound - 1 - uint64(rnd.Intn(3))
				}
				snd := uint64(1 + rnd.Intn(2))
				lease := uint64(rnd.Intn(3))
				var tx transactions.Transaction
				tx.Sender = vc11cAddr(snd)
				tx.Lease = vc11cLease(lease)
				tx.LastValid = basics.Round(lv)
				top.addTx(tx, vc11cTxid(id))
				ops = append(ops, vL(vSym("a"), id, lv, snd, lease))
				st["addTx"]++
			case k < 55 && len(stack) > 1:
				top.commitToParent()
				stack = stack[:len(stack)-1]
				ops = append(ops, vL(vSym("m")))
				st["commit"]++
			case k < 60 && len(stack) > 1:
				stack = stack[:len(stack)-1]
				ops = append(ops, vL(vSym("x")))
				st["discard"]++
			default:
				id := nextID + 1000
				if len(used) > 0 && rnd.Intn(2) == 0 {
					id = used[rnd.Intn(len(used))]
				}
				snd := uint64(1 + rnd.Intn(2))
				lease := uint64(rnd.Intn(3))
				base.answer = 0
				if rnd.Intn(4) == 0 {
					base.answer = 1 + rnd.Intn(2)
				}
				err := top.checkDup(0, basics.Round(hdrRound+1), vc11cTxid(id), ledgercore.Txlease{Sender: vc11cAddr(snd), Lease: vc11cLease(lease)})
				obs := 0
				var e1 *ledgercore.TransactionInLedgerError
				var e2 *ledgercore.LeaseInLedgerError
				switch {
				case err == nil:
				case errors.As(err, &e1):
					obs = 1
					if e1.InBlockEvaluator {
						obs = 4
					}
				case errors.As(err, &e2):
					obs = 2
					if e2.InBlockEvaluator {
						obs = 5
					}
				default:
					obs = 9
				}
				ops = append(ops, vL(vSym("q"), id, snd, lease, base.answer, obs))
				st[fmt.Sprintf("probe_obs_%d", obs)]++
			}
		}
		// dump root.mods
		type ent struct{ id, intra uint64 }
		var es []ent
		for id, inc := range root.mods.Txids {
			es = append(es, ent{binary.BigEndian.Uint64(id[0:8]), inc.Intra})
		}
		sort.Slice(es, func(a, b int) bool { return es[a].intra < es[b].intra })
		ids := make([]interface{}, 0, len(es))
		for _, e := range es {
			ids = append(ids, e.id)
		}
		type le struct{ s, l, e uint64 }
		var ls []le
		for k, e := range root.mods.Txleases {
			ls = append(ls, le{binary.BigEndian.Uint64(k.Sender[8:16]), binary.BigEndian.Uint64(k.Lease[16:24]), uint64(e)})
		}
		sort.Slice(ls, func(a, b int) bool {
			if ls[a].s != ls[b].s {
				return ls[a].s < ls[b].s
			}
			return ls[a].l < ls[b].l
		})
		ll := make([]interface{}, 0, len(ls))
		for _, x := range ls {
			ll = append(ll, vL(x.s, x.l, x.e))
		}
		ops = append(ops, vL(vSym("d"), ids, ll))
		out.Case(vSym("cow"), vL(hdrRound, sup), ops)
	}
	m := map[string]interface{}{"scripts": n}
	for k, v := range st {
		m[k] = v
	}
	vStats(m)
}
