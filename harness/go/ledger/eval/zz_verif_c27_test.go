//go:build verif

package eval

// C27 harness: expired / absent participation lists of a block header.
//
//	ia  isAbsent on boundary-heavy (total, stake, lastSeen, current): lastSeen around
//	    current - 20*total/stake, lags around 2^32, zero stake / lastSeen
//	fc  apply.FindChallenge(ChActive) + challenge.Failed: rounds around the (grace, 2*grace]
//	    window, missing / foreign-protocol headers, addresses sharing bits-1 / bits / bits+1
//	    leading bits with the seed, lastSeen around the challenge round
//	ko  tag d: validateExpiredOnlineAccounts, resetExpiredOnlineAccountsParticipationKeys,
//	    validateAbsentOnlineAccounts, suspendAbsentAccounts in endOfBlock order on a
//	    hand-built evaluator: populations with VoteLastValid around the round, lastProposed /
//	    lastHeartbeat around the absence threshold, candidate lists with duplicates,
//	    ineligible / unknown members, too long lists
//	    tag e: eval.Eval (validate) of generated blocks whose ExpiredParticipationAccounts /
//	    AbsentParticipationAccounts were replaced, on the package's test ledger advanced past
//	    a challenge round
//
// The harness also counts, with the real isAbsent / Failed, which disjunct justified each
// accepted absent member (stats.json).

import (
	"context"
	"errors"
	"fmt"
	"math/bits"
	"strings"
	"testing"

	"github.com/algorand/go-algorand/agreement"
	"github.com/algorand/go-algorand/config"
	"github.com/algorand/go-algorand/crypto"
	"github.com/algorand/go-algorand/data/basics"
	"github.com/algorand/go-algorand/data/bookkeeping"
	"github.com/algorand/go-algorand/data/committee"
	"github.com/algorand/go-algorand/data/transactions"
	"github.com/algorand/go-algorand/data/transactions/verify"
	"github.com/algorand/go-algorand/ledger/apply"
	"github.com/algorand/go-algorand/ledger/ledgercore"
	"github.com/algorand/go-algorand/protocol"
)

type vc27Ledger struct {
	accts   map[basics.Address]ledgercore.AccountData
	hdrs    map[basics.Round]bookkeeping.BlockHeader
	missing map[basics.Round]bool
	def     protocol.ConsensusVersion
}

func (l *vc27Ledger) BlockHdr(r basics.Round) (bookkeeping.BlockHeader, error) {
	if l.missing[r] {
		return bookkeeping.BlockHeader{}, errors.New("no such header")
	}
	if h, ok := l.hdrs[r]; ok {
		return h, nil
	}
	var h bookkeeping.BlockHeader
	h.Round = r
	h.CurrentProtocol = l.def
	return h, nil
}
func (l *vc27Ledger) GenesisHash() crypto.Digest { return crypto.Digest{} }
func (l *vc27Ledger) CheckDup(config.ConsensusParams, basics.Round, basics.Round, basics.Round, transactions.Txid, ledgercore.Txlease) error {
	return nil
}
func (l *vc27Ledger) LookupWithoutRewards(r basics.Round, a basics.Address) (ledgercore.AccountData, basics.Round, error) {
	return l.accts[a], r, nil
}
func (l *vc27Ledger) LookupAgreement(basics.Round, basics.Address) (basics.OnlineAccountData, error) {
	return basics.OnlineAccountData{}, nil
}
func (l *vc27Ledger) GetKnockOfflineCandidates(basics.Round, config.ConsensusParams) (map[basics.Address]basics.OnlineAccountData, error) {
	return nil, nil
}
func (l *vc27Ledger) LookupAsset(basics.Round, basics.Address, basics.AssetIndex) (ledgercore.AssetResource, error) {
	return ledgercore.AssetResource{}, nil
}
func (l *vc27Ledger) LookupApplication(basics.Round, basics.Address, basics.AppIndex) (ledgercore.AppResource, error) {
	return ledgercore.AppResource{}, nil
}
func (l *vc27Ledger) LookupKv(basics.Round, string) ([]byte, error) { return nil, nil }
func (l *vc27Ledger) GetCreatorForRound(basics.Round, basics.CreatableIndex, basics.CreatableType) (basics.Address, bool, error) {
	return basics.Address{}, false, nil
}
func (l *vc27Ledger) GetStateProofVerificationContext(basics.Round) (*ledgercore.StateProofVerificationContext, error) {
	return nil, errors.New("none")
}
func (l *vc27Ledger) OnlineCirculation(basics.Round, basics.Round) (basics.MicroAlgos, error) {
	return basics.MicroAlgos{}, nil
}

// rules variants, each registered as its own consensus version so that FindChallenge's
// "rules unchanged since the challenge round" comparison can succeed or fail
type vc27Rules struct {
	ver   protocol.ConsensusVersion
	proto config.ConsensusParams
}

var vc27Variants []vc27Rules

func vc27Setup() {
	if vc27Variants != nil {
		return
	}
	type r struct {
		interval, grace uint64
		bits            int
	}
	for i, x := range []r{{1000, 200, 5}, {1000, 200, 0}, {1000, 200, 8}, {1000, 200, 13}, {50, 10, 3}, {7, 2, 1},
		{16, 5, 16}, {0, 200, 5}, {100, 0, 4}, {100, 60, 7}, {40, 7, 256}, {40, 7, 257}, {30, 4, -1}, {1, 3, 2}} {
		p := config.Consensus[protocol.ConsensusFuture]
		p.Payouts.ChallengeInterval = x.interval
		p.Payouts.ChallengeGracePeriod = x.grace
		p.Payouts.ChallengeBits = x.bits
		v := protocol.ConsensusVersion(fmt.Sprintf("verif-c27-%d", i))
		config.Consensus[v] = p
		vc27Variants = append(vc27Variants, vc27Rules{v, p})
	}
}

// a round that is interesting for the rules: around the edges of the suspension window
func vc27Round(r *vRand, interval, grace uint64) uint64 {
	if interval == 0 || r.Intn(6) == 0 {
		return uint64(1 + r.Intn(5000))
	}
	k := uint64(r.Intn(5))
	if r.Intn(8) == 0 {
		k = uint64(r.Intn(1 << 20))
	}
	base := k * interval
	var off uint64
	switch r.Intn(6) {
	case 0:
		off = grace + uint64(r.Intn(3)) - 1
	case 1:
		off = 2*grace + uint64(r.Intn(3)) - 1
	case 2:
		off = grace + 1 + uint64(r.Intn(int(grace)+1))
	case 3:
		off = uint64(r.Intn(int(interval)))
	case 4:
		off = grace/2 + uint64(r.Intn(3))
	default:
		off = grace + 1
	}
	x := base + off
	if x == 0 || x > 1<<62 {
		x = 1
	}
	return x
}

// an address sharing exactly n leading bits with seed (n < 256), or all of them
func vc27AddrSharing(r *vRand, seed []byte, n int) (a basics.Address) {
	copy(a[:], seed)
	if n >= 256 {
		return a
	}
	if n < 0 {
		n = 0
	}
	a[n/8] ^= 0x80 >> uint(n%8)
	// randomise everything after the flipped bit
	for i := n + 1; i < 256; i++ {
		if r.Bool() {
			a[i/8] ^= 0x80 >> uint(i%8)
		}
	}
	return a
}

func vc27Bool(b bool) int {
	if b {
		return 1
	}
	return 0
}

func vc27Hdrs(led *vc27Ledger, rounds []basics.Round) []interface{} {
	var hs []interface{}
	for _, r := range rounds {
		if led.missing[r] {
			continue
		}
		h, _ := led.BlockHdr(r)
		hs = append(hs, vL(uint64(r), h.Seed[:], true))
	}
	return hs
}

func TestVerifC27(t *testing.T) {
	vc27Setup()
	out := vOpen("cases_c27.txt")
	defer out.Close()
	rnd := vNewRand(27)
	n := vEnvInt("VERIF_C27_N", 3000)
	st := map[string]int{}

	// ---- ia ----
	for i := 0; i < 2*n; i++ {
		total, stake := rnd.Edge64(), rnd.Edge64()
		cur := uint64(rnd.Intn(1 << 22))
		if rnd.Intn(5) == 0 {
			cur = rnd.U64() >> uint(2+rnd.Intn(40))
		}
		ls := uint64(0)
		switch i % 5 {
		case 0, 1: // realistic: lag of a few hundred rounds, lastSeen at the threshold
			stake = uint64(1+rnd.Intn(1000)) * 1000000
			lag := uint64(1 + rnd.Intn(3000))
			total = stake / 20 * lag
			if rnd.Bool() {
				total += uint64(rnd.Intn(int(stake/20) + 1))
			}
		case 2: // lag around 2^32
			stake = uint64(1 + rnd.Intn(1000))
			total = (uint64(1)<<32 + uint64(rnd.Intn(5)) - 2) * stake / 20
			cur = uint64(1)<<33 + rnd.U64()>>30
		}
		if stake != 0 {
			hi, lo := bits.Mul64(20, total)
			if hi < stake {
				lag, _ := bits.Div64(hi, lo, stake)
				if cur > lag {
					ls = cur - lag + uint64(rnd.Intn(5)) - 2
				}
			}
		}
		switch rnd.Intn(8) {
		case 0:
			ls = 0
		case 1:
			ls = uint64(rnd.Intn(int(cur%(1<<30)) + 2))
		}
		if ls >= 1<<63 {
			ls = 1
		}
		got := isAbsent(basics.MicroAlgos{Raw: total}, basics.MicroAlgos{Raw: stake}, basics.Round(ls), basics.Round(cur))
		out.Case(vSym("ia"), total, stake, ls, cur, got)
		st["ia"]++
		if got {
			st["ia_true"]++
		}
	}

	// ---- fc ----
	for i := 0; i < 2*n; i++ {
		v := vc27Variants[rnd.Intn(len(vc27Variants))]
		ru := v.proto.Payouts
		cur := vc27Round(rnd, ru.ChallengeInterval, ru.ChallengeGracePeriod)
		led := &vc27Ledger{hdrs: map[basics.Round]bookkeeping.BlockHeader{}, missing: map[basics.Round]bool{}, def: v.ver}
		var lc basics.Round
		if ru.ChallengeInterval > 0 {
			lc = basics.Round(cur - cur%ru.ChallengeInterval)
		}
		var seed committee.Seed
		copy(seed[:], rnd.Bytes(32))
		same := true
		h := bookkeeping.BlockHeader{Round: lc, Seed: seed}
		h.CurrentProtocol = v.ver
		switch rnd.Intn(8) {
		case 0:
			led.missing[lc] = true
		case 1:
			h.CurrentProtocol = vc27Variants[(rnd.Intn(len(vc27Variants)-1)+1+indexOf(v.ver))%len(vc27Variants)].ver
			same = config.Consensus[h.CurrentProtocol].Payouts == ru
		}
		led.hdrs[lc] = h
		share := ru.ChallengeBits + rnd.Intn(5) - 2
		if rnd.Intn(5) == 0 {
			share = rnd.Intn(257)
		}
		addr := vc27AddrSharing(rnd, seed[:], share)
		ls := uint64(lc) + uint64(rnd.Intn(5)) - 2
		if rnd.Intn(4) == 0 || ls >= 1<<63 {
			ls = uint64(rnd.Intn(int(cur%(1<<30)) + 2))
		}
		ch := apply.FindChallenge(ru, basics.Round(cur), led, apply.ChActive)
		var hs []interface{}
		if !led.missing[lc] {
			hs = append(hs, vL(uint64(lc), seed[:], same))
		}
		failed := ch.Failed(addr, basics.Round(ls))
		out.Case(vSym("fc"), ru.ChallengeInterval, ru.ChallengeGracePeriod, ru.ChallengeBits, cur, hs, addr[:], ls,
			vL(ch.IsZero(), failed))
		st["fc"]++
		if !ch.IsZero() {
			st["fc_active"]++
		}
		if failed {
			st["fc_failed"]++
		}
	}

	// ---- ko direct ----
	for i := 0; i < n; i++ {
		vc27Direct(t, out, rnd, st)
	}

	// ---- ko through eval.Eval ----
	nl := vEnvInt("VERIF_C27_EVAL_LEDGERS", 2)
	for i := 0; i < nl; i++ {
		vc27Eval(t, out, rnd, st, i)
	}
	stats := map[string]interface{}{}
	for k, v := range st {
		stats[k] = v
	}
	vStats(stats)
}

func indexOf(v protocol.ConsensusVersion) int {
	for i := range vc27Variants {
		if vc27Variants[i].ver == v {
			return i
		}
	}
	return 0
}

type vc27Acct struct {
	addr  basics.Address
	data  ledgercore.AccountData
	stake uint64
}

func (a vc27Acct) term() []interface{} {
	d := a.data
	return vL(a.addr[:], uint64(d.Status), d.MicroAlgos.Raw, d.IncentiveEligible, !d.VoteID.IsEmpty(),
		uint64(d.VoteLastValid), uint64(d.LastProposed), uint64(d.LastHeartbeat), a.stake)
}

func vc27Post(d ledgercore.AccountData) []interface{} {
	return vL(uint64(d.Status), d.IncentiveEligible, !d.VoteID.IsEmpty(), uint64(d.VoteLastValid))
}

func vc27Class(t *testing.T, err error) vSym {
	if err == nil {
		return "ok"
	}
	m := err.Error()
	for _, c := range []struct{ sub, cls string }{
		{"length of expired accounts", "exp_too_many"},
		{"had no vote key", "exp_no_key"},
		{"was not less than current round", "exp_not_expired"},
		{"length of absent accounts", "abs_too_many"},
		{"not Online", "abs_not_online"},
		{"with zero algos", "abs_zero_algos"},
		{"not IncentiveEligible", "abs_not_eligible"},
		{"is not absent in", "abs_not_absent"},
	} {
		if strings.Contains(m, c.sub) {
			return vSym(c.cls)
		}
	}
	t.Fatalf("unexpected knock-off error %q", m)
	return ""
}

// candidate list: mostly members of pool, with duplicates / unknown addresses / overlong
func vc27List(r *vRand, pool []basics.Address, prefer []basics.Address, max int, avoid []basics.Address) []basics.Address {
	var l []basics.Address
	if r.Intn(5) < 3 { // only members that qualify (and are not in the other list): should be accepted
		skip := map[basics.Address]bool{}
		for _, a := range avoid {
			skip[a] = true
		}
		for _, a := range prefer {
			if !skip[a] && len(l) < max && r.Intn(4) != 0 {
				l = append(l, a)
			}
		}
		if r.Intn(4) == 0 && len(pool) > 0 && len(l) < max { // plus one arbitrary (often near-miss) member
			x := pool[r.Intn(len(pool))]
			dup := skip[x]
			for _, a := range l {
				dup = dup || a == x
			}
			if !dup {
				l = append(l, x)
			}
		}
		for i := range l { // any order
			j := r.Intn(len(l))
			l[i], l[j] = l[j], l[i]
		}
		return l
	}
	n := r.Intn(4)
	if r.Intn(3) == 0 {
		n = r.Intn(max + 3)
	}
	if r.Intn(12) == 0 {
		n = max + 1 + r.Intn(2)
	}
	perm := make([]basics.Address, 0, len(pool)+len(prefer))
	if r.Intn(4) != 0 {
		perm = append(perm, prefer...)
	}
	perm = append(perm, pool...)
	// shuffle lightly
	for i := range perm {
		j := r.Intn(len(perm))
		if r.Intn(3) == 0 {
			perm[i], perm[j] = perm[j], perm[i]
		}
	}
	seen := map[basics.Address]bool{}
	for _, a := range perm {
		if len(l) >= n {
			break
		}
		if seen[a] && r.Intn(10) != 0 {
			continue
		}
		seen[a] = true
		l = append(l, a)
	}
	for len(l) < n && len(pool) > 0 && n > max { // overlong lists may repeat members
		l = append(l, pool[r.Intn(len(pool))])
	}
	if len(l) > 0 && r.Intn(12) == 0 { // a duplicate
		l = append(l, l[r.Intn(len(l))])
	}
	if r.Intn(15) == 0 { // an address nobody knows
		var a basics.Address
		copy(a[:], r.Bytes(32))
		l = append(l, a)
	}
	return l
}

func vc27Direct(t *testing.T, out *vOut, r *vRand, st map[string]int) {
	v := vc27Variants[r.Intn(len(vc27Variants))]
	proto := v.proto
	switch r.Intn(4) {
	case 0:
		proto.MaxProposedExpiredOnlineAccounts = r.Intn(5)
		proto.Payouts.MaxMarkAbsent = r.Intn(5)
	case 1:
		proto.MaxProposedExpiredOnlineAccounts = 3
		proto.Payouts.MaxMarkAbsent = 3
	}
	// MaxMarkAbsent / MaxProposedExpiredOnlineAccounts are not part of what FindChallenge compares?
	// they are (Payouts is compared as a whole), so register the exact parameter set used
	ver := protocol.ConsensusVersion(fmt.Sprintf("%s-m%d", v.ver, proto.Payouts.MaxMarkAbsent))
	if _, ok := config.Consensus[ver]; !ok {
		reg := v.proto
		reg.Payouts.MaxMarkAbsent = proto.Payouts.MaxMarkAbsent
		config.Consensus[ver] = reg
	}
	ru := proto.Payouts
	cur := vc27Round(r, ru.ChallengeInterval, ru.ChallengeGracePeriod)
	if cur < 3 {
		cur = 3
	}
	var lc basics.Round
	if ru.ChallengeInterval > 0 {
		lc = basics.Round(cur - cur%ru.ChallengeInterval)
	}
	led := &vc27Ledger{accts: map[basics.Address]ledgercore.AccountData{}, hdrs: map[basics.Round]bookkeeping.BlockHeader{},
		missing: map[basics.Round]bool{}, def: ver}
	var seed committee.Seed
	copy(seed[:], r.Bytes(32))
	h := bookkeeping.BlockHeader{Round: lc, Seed: seed}
	h.CurrentProtocol = ver
	same := true
	total := uint64(1+r.Intn(1000)) * 1000000000
	if r.Intn(20) == 0 {
		total = 0
	}
	switch r.Intn(10) {
	case 0:
		if total != 0 {
			led.missing[lc] = true
		}
	case 1:
		h.CurrentProtocol = protocol.ConsensusFuture
		same = config.Consensus[protocol.ConsensusFuture].Payouts == ru
	}
	led.hdrs[lc] = h

	k := 2 + r.Intn(8)
	accts := make([]vc27Acct, k)
	var pool, expirable, suspendable []basics.Address
	for j := range accts {
		a := &accts[j]
		share := ru.ChallengeBits + r.Intn(3) - 1
		if r.Intn(3) == 0 {
			share = r.Intn(20)
		}
		a.addr = vc27AddrSharing(r, seed[:], share)
		for _, dup := led.accts[a.addr]; dup; _, dup = led.accts[a.addr] { // addresses are distinct
			a.addr = vc27AddrSharing(r, seed[:], r.Intn(200))
		}
		d := &a.data
		d.Status = basics.Online
		if r.Intn(6) == 0 {
			d.Status = basics.Status(r.Intn(3))
		}
		d.MicroAlgos.Raw = uint64(1+r.Intn(1000)) * 1000000
		if r.Intn(12) == 0 {
			d.MicroAlgos.Raw = 0
		}
		d.IncentiveEligible = r.Intn(6) != 0
		if r.Intn(8) != 0 {
			d.VoteID[0] = 1
			d.VoteLastValid = basics.Round(cur + uint64(r.Intn(5)) - 2)
			if r.Intn(3) == 0 {
				d.VoteLastValid = basics.Round(cur + 1000)
			}
			d.VoteFirstValid = 1
			d.VoteKeyDilution = 100
		}
		a.stake = d.MicroAlgos.Raw
		if r.Intn(5) == 0 {
			a.stake = uint64(r.Intn(3)) * uint64(r.Intn(1000000000))
		}
		// lastSeen around the absence threshold, the challenge round, or fresh
		ls := uint64(0)
		lag := uint64(0)
		if a.stake != 0 {
			hi, lo := bits.Mul64(20, total)
			if hi < a.stake {
				lag, _ = bits.Div64(hi, lo, a.stake)
			}
		}
		switch r.Intn(6) {
		case 0, 1:
			if cur > lag {
				ls = cur - lag + uint64(r.Intn(5)) - 2
			}
		case 2:
			ls = uint64(lc) + uint64(r.Intn(3)) - 1
		case 3:
			ls = cur - uint64(r.Intn(3))
		case 4:
			ls = uint64(r.Intn(int(cur) + 1))
		}
		if ls >= 1<<62 {
			ls = 0
		}
		if r.Bool() {
			d.LastProposed = basics.Round(ls)
			d.LastHeartbeat = basics.Round(uint64(r.Intn(int(ls%(1<<30)) + 1)))
		} else {
			d.LastHeartbeat = basics.Round(ls)
			d.LastProposed = basics.Round(uint64(r.Intn(int(ls%(1<<30)) + 1)))
		}
		led.accts[a.addr] = *d
		pool = append(pool, a.addr)
		if !d.VoteID.IsEmpty() && uint64(d.VoteLastValid) < cur {
			expirable = append(expirable, a.addr)
		}
	}
	chPre := apply.FindChallenge(proto.Payouts, basics.Round(cur), led, apply.ChActive)
	for _, a := range accts {
		d := a.data
		if d.Status == basics.Online && d.IncentiveEligible && !d.MicroAlgos.IsZero() &&
			(isAbsent(basics.MicroAlgos{Raw: total}, basics.MicroAlgos{Raw: a.stake}, d.LastSeen(), basics.Round(cur)) ||
				chPre.Failed(a.addr, d.LastSeen())) {
			suspendable = append(suspendable, a.addr)
		}
	}
	expired := vc27List(r, pool, expirable, proto.MaxProposedExpiredOnlineAccounts, nil)
	if r.Intn(3) == 0 {
		expired = nil
	}
	absent := vc27List(r, pool, suspendable, proto.Payouts.MaxMarkAbsent, expired)

	var hdr bookkeeping.BlockHeader
	hdr.Round = basics.Round(cur)
	hdr.CurrentProtocol = ver
	base := makeRoundCowBase(led, basics.Round(cur-1), 0, 0, proto)
	base.totalOnline = basics.MicroAlgos{Raw: total}
	for _, a := range accts {
		base.onlineAccounts[a.addr] = basics.OnlineAccountData{MicroAlgosWithRewards: basics.MicroAlgos{Raw: a.stake}}
	}
	for _, a := range append(append([]basics.Address{}, expired...), absent...) {
		if _, ok := base.onlineAccounts[a]; !ok {
			base.onlineAccounts[a] = basics.OnlineAccountData{}
		}
	}
	ev := &BlockEvaluator{validate: true, proto: proto}
	ev.block = bookkeeping.Block{BlockHeader: hdr}
	ev.block.ParticipationUpdates.ExpiredParticipationAccounts = expired
	ev.block.ParticipationUpdates.AbsentParticipationAccounts = absent
	ev.state = makeRoundCowState(base, hdr, proto, 0, ledgercore.AccountTotals{}, 0)

	// which disjunct would justify each absent member (real functions, pre-state)
	ch := apply.FindChallenge(proto.Payouts, basics.Round(cur), ev.state, apply.ChActive)
	type just struct{ rule, chal bool }
	js := make([]just, len(absent))
	for i, a := range absent {
		d := led.accts[a]
		stake := base.onlineAccounts[a].MicroAlgosWithRewards
		js[i] = just{isAbsent(basics.MicroAlgos{Raw: total}, stake, d.LastSeen(), basics.Round(cur)), ch.Failed(a, d.LastSeen())}
	}

	err := ev.validateExpiredOnlineAccounts()
	if err == nil {
		err = ev.resetExpiredOnlineAccountsParticipationKeys()
	}
	if err == nil {
		err = ev.validateAbsentOnlineAccounts()
	}
	if err == nil {
		err = ev.suspendAbsentAccounts()
	}
	cls := vc27Class(t, errIfNotDup(err))
	if err != nil && strings.Contains(err.Error(), "duplicate address found") {
		// the same message is used for both lists: tell them apart by which list has the duplicate
		cls = "abs_dup"
		seen := map[basics.Address]bool{}
		for _, a := range expired {
			if seen[a] {
				cls = "exp_dup"
			}
			seen[a] = true
		}
	}
	var post []interface{}
	if err == nil {
		for _, a := range accts {
			d, _ := ev.state.lookup(a.addr)
			post = append(post, vc27Post(d))
		}
		for _, j := range js {
			switch {
			case j.rule && j.chal:
				st["justified_both"]++
			case j.rule:
				st["justified_rule_only"]++
			case j.chal:
				st["justified_challenge_only"]++
			default:
				st["justified_by_nothing"]++
			}
		}
	}
	var at, et, bt []interface{}
	for _, a := range accts {
		at = append(at, a.term())
	}
	for _, a := range expired {
		et = append(et, a[:])
	}
	for _, a := range absent {
		bt = append(bt, a[:])
	}
	var hs []interface{}
	if !led.missing[lc] {
		hs = append(hs, vL(uint64(lc), seed[:], same))
	}
	if et == nil {
		et = vL()
	}
	if bt == nil {
		bt = vL()
	}
	if hs == nil {
		hs = vL()
	}
	if post == nil {
		post = vL()
	}
	out.Case(vSym("ko"), vSym("d"),
		vL(proto.MaxProposedExpiredOnlineAccounts, proto.Payouts.MaxMarkAbsent, cur, total, ru.ChallengeInterval, ru.ChallengeGracePeriod, ru.ChallengeBits),
		hs, at, et, bt, vL(cls, post))
	st["ko_direct"]++
	st["ko_direct_"+string(cls)]++
}

// ---- eval.Eval on the package's test ledger ----
func vc27Eval(t *testing.T, out *vOut, r *vRand, st map[string]int, which int) {
	proto := config.Consensus[protocol.ConsensusFuture]
	ru := proto.Payouts
	// target round: inside / at the edges of the suspension window of the challenge at 1000
	targets := []uint64{1201, 1400, 1200, 1401, 1250, 1399, 1100, 1202}
	target := targets[which%len(targets)]
	if which >= len(targets) {
		target = 1150 + uint64(r.Intn(300))
	}
	balances := map[basics.Address]basics.AccountData{}
	pool := basics.AccountData{Status: basics.NotParticipating}
	pool.MicroAlgos.Raw = 1000000000000
	sink := pool
	balances[testPoolAddr] = pool
	balances[testSinkAddr] = sink
	// one whale so that 20*total/stake is a few hundred rounds for the small accounts
	whale := basics.Address{0xee, 0x01}
	wd := basics.AccountData{Status: basics.Online}
	wd.MicroAlgos.Raw = 50000000000000
	wd.VoteID[0] = 1
	wd.VoteLastValid = 100000
	balances[whale] = wd
	k := 40
	addrs := make([]basics.Address, k)
	all := []basics.Address{whale}
	for j := 0; j < k; j++ {
		var a basics.Address
		copy(a[:], r.Bytes(32))
		a[0] = byte(j << 3) // all 32 five-bit prefixes occur: one of them matches any seed
		if j >= 32 {
			a[0] = byte(r.Intn(256))
		}
		addrs[j] = a
		all = append(all, a)
	}
	// total online stake is fixed by the statuses chosen below; compute lags afterwards
	ds := make([]basics.AccountData, k)
	total := wd.MicroAlgos.Raw
	for j := range ds {
		d := &ds[j]
		d.Status = basics.Online
		if r.Intn(8) == 0 {
			d.Status = basics.Status(r.Intn(3))
		}
		d.MicroAlgos.Raw = uint64(1+r.Intn(60)) * 100000000000 // 1e11 .. 6e12: lag = 20*total/stake ~ 170..10000+
		if r.Intn(15) == 0 {
			d.MicroAlgos.Raw = 0
		}
		d.IncentiveEligible = r.Intn(6) != 0
		// a NotParticipating account never holds keys (keyreg forbids it); expiring one would
		// start paying it rewards and the block fails CalculateTotals instead
		if r.Intn(8) != 0 && d.Status != basics.NotParticipating {
			d.VoteID[0] = 1
			d.VoteFirstValid = 1
			d.VoteKeyDilution = 100
			d.VoteLastValid = basics.Round(target + uint64(r.Intn(5)) - 2)
			if r.Intn(3) == 0 {
				d.VoteLastValid = basics.Round(target + 5000)
			}
		}
		if d.Status == basics.Online {
			total += d.MicroAlgos.Raw
		}
	}
	for j := range ds {
		d := &ds[j]
		ls := uint64(0)
		if d.MicroAlgos.Raw > 0 {
			hi, lo := bits.Mul64(20, total)
			lag, _ := bits.Div64(hi, lo, d.MicroAlgos.Raw)
			switch r.Intn(5) {
			case 0, 1:
				if target > lag {
					ls = target - lag + uint64(r.Intn(5)) - 2
				}
			case 2:
				ls = 1000 + uint64(r.Intn(3)) - 1
			case 3:
				ls = uint64(1 + r.Intn(int(target)))
			}
		}
		if r.Bool() {
			d.LastProposed = basics.Round(ls)
		} else {
			d.LastHeartbeat = basics.Round(ls)
		}
		balances[addrs[j]] = *d
	}
	l := newTestLedger(t, bookkeeping.GenesisBalances{Balances: balances, FeeSink: testSinkAddr, RewardsPool: testPoolAddr})
	ev := l.nextBlock(t)
	for uint64(ev.Round()) < target {
		ub, err := ev.GenerateBlock(all) // every account "participates": no knock-offs are generated
		if err != nil {
			t.Fatalf("GenerateBlock: %v", err)
		}
		var seed committee.Seed
		copy(seed[:], r.Bytes(32))
		blk := ub.UnfinishedBlock().WithProposer(seed, testPoolAddr, true)
		if len(blk.ExpiredParticipationAccounts)+len(blk.AbsentParticipationAccounts) != 0 {
			t.Fatalf("unexpected generated knock-offs")
		}
		vb := ledgercore.MakeValidatedBlock(blk, ub.UnfinishedDeltas())
		if err := l.AddValidatedBlock(vb, agreement.Certificate{}); err != nil {
			t.Fatal(err)
		}
		ev = l.nextBlock(t)
	}
	ub, err := ev.GenerateBlock(all)
	if err != nil {
		t.Fatalf("GenerateBlock: %v", err)
	}
	var seed committee.Seed
	copy(seed[:], r.Bytes(32))
	good := ub.UnfinishedBlock().WithProposer(seed, testPoolAddr, true)
	cur := uint64(good.Round())
	brnd := agreement.BalanceRound(good.Round(), proto)
	circ, _ := l.OnlineCirculation(brnd, good.Round())
	if circ.Raw != total {
		t.Fatalf("online circulation %d, expected %d", circ.Raw, total)
	}
	lc := basics.Round(cur - cur%ru.ChallengeInterval)
	var hs []interface{}
	if lc > 0 {
		h, err := l.BlockHdr(lc)
		if err != nil {
			t.Fatal(err)
		}
		hs = append(hs, vL(uint64(lc), h.Seed[:], config.Consensus[h.CurrentProtocol].Payouts == ru))
	} else {
		hs = vL()
	}
	accts := make([]vc27Acct, k)
	var at []interface{}
	var expirable, suspendable []basics.Address
	for j := range accts {
		cd := l.lookup(t, addrs[j])
		if cd.Status != ds[j].Status || cd.LastProposed != ds[j].LastProposed || cd.VoteLastValid != ds[j].VoteLastValid {
			t.Fatalf("account %d changed while advancing the ledger", j)
		}
		bd, _ := l.Lookup(brnd, addrs[j])
		accts[j] = vc27Acct{addr: addrs[j], data: ledgercore.ToAccountData(cd), stake: bd.MicroAlgos.Raw}
		at = append(at, accts[j].term())
		if !cd.VoteID.IsEmpty() && uint64(cd.VoteLastValid) < cur {
			expirable = append(expirable, addrs[j])
		}
		ld := ledgercore.ToAccountData(cd)
		if cd.Status == basics.Online && cd.IncentiveEligible && !cd.MicroAlgos.IsZero() &&
			(isAbsent(circ, bd.MicroAlgos, ld.LastSeen(), good.Round()) ||
				apply.FindChallenge(ru, good.Round(), l, apply.ChActive).Failed(addrs[j], ld.LastSeen())) {
			suspendable = append(suspendable, addrs[j])
		}
	}
	ch := apply.FindChallenge(ru, good.Round(), l, apply.ChActive)
	variants := vEnvInt("VERIF_C27_EVAL_VARIANTS", 60)
	for v := 0; v < variants; v++ {
		var expired, absent []basics.Address
		switch v {
		case 0: // everything that can be expired / suspended, up to the maxima, disjointly
			expired = append(expired, expirable...)
			if len(expired) > proto.MaxProposedExpiredOnlineAccounts {
				expired = expired[:proto.MaxProposedExpiredOnlineAccounts]
			}
			in := map[basics.Address]bool{}
			for _, a := range expired {
				in[a] = true
			}
			for _, a := range suspendable {
				if !in[a] && len(absent) < proto.Payouts.MaxMarkAbsent {
					absent = append(absent, a)
				}
			}
		case 1:
			absent = append(absent, suspendable...)
			if len(absent) > proto.Payouts.MaxMarkAbsent {
				absent = absent[:proto.Payouts.MaxMarkAbsent]
			}
		default:
			if r.Intn(3) != 0 {
				expired = vc27List(r, addrs, expirable, proto.MaxProposedExpiredOnlineAccounts, nil)
			}
			absent = vc27List(r, addrs, suspendable, proto.Payouts.MaxMarkAbsent, expired)
			if r.Intn(3) == 0 && len(absent) > 3 {
				absent = absent[:1+r.Intn(3)]
			}
			if r.Intn(3) == 0 && len(expired) > 3 {
				expired = expired[:1+r.Intn(3)]
			}
		}
		blk := good
		blk.ParticipationUpdates.ExpiredParticipationAccounts = expired
		blk.ParticipationUpdates.AbsentParticipationAccounts = absent
		delta, err := Eval(context.Background(), l, blk, true, verify.GetMockedCache(true), nil, nil)
		cls := vc27Class(t, errIfNotDup(err))
		if err != nil && strings.Contains(err.Error(), "duplicate address found") {
			cls = "abs_dup"
			seen := map[basics.Address]bool{}
			for _, a := range expired {
				if seen[a] {
					cls = "exp_dup"
				}
				seen[a] = true
			}
		}
		post := vL()
		if err == nil {
			for j := range accts {
				d, ok := delta.Accts.GetData(addrs[j])
				if !ok {
					d = accts[j].data
				}
				post = append(post, vc27Post(d))
			}
			for _, a := range absent {
				cd := ledgercore.ToAccountData(l.lookup(t, a))
				bd, _ := l.Lookup(brnd, a)
				rule := isAbsent(circ, bd.MicroAlgos, cd.LastSeen(), good.Round())
				chal := ch.Failed(a, cd.LastSeen())
				switch {
				case rule && chal:
					st["justified_both"]++
				case rule:
					st["justified_rule_only"]++
				case chal:
					st["justified_challenge_only"]++
				default:
					st["justified_by_nothing"]++
				}
			}
		}
		et, bt := vL(), vL()
		for _, a := range expired {
			et = append(et, a[:])
		}
		for _, a := range absent {
			bt = append(bt, a[:])
		}
		out.Case(vSym("ko"), vSym("e"),
			vL(proto.MaxProposedExpiredOnlineAccounts, proto.Payouts.MaxMarkAbsent, cur, total, ru.ChallengeInterval, ru.ChallengeGracePeriod, ru.ChallengeBits),
			hs, at, et, bt, vL(cls, post))
		st["ko_eval"]++
		st["ko_eval_"+string(cls)]++
	}
}

func errIfNotDup(err error) error {
	if err != nil && strings.Contains(err.Error(), "duplicate address found") {
		return nil
	}
	return err
}
