//go:build verif

package apply

// C22 harness (package apply): drives the REAL AssetConfig / AssetTransfer / AssetFreeze over
// a Balances implementation that stores exactly what roundCowState stores for these functions
// (per-account counters, holdings, params in the creator's account, the creatable index).
// One case = one whole history; after every transaction the complete asset state is dumped.
// A failed transaction's writes are rolled back (what the evaluator's child cow does).

import (
	"errors"
	"fmt"
	"maps"
	"sort"
	"strings"
	"testing"

	"github.com/algorand/go-algorand/config"
	"github.com/algorand/go-algorand/data/basics"
	"github.com/algorand/go-algorand/data/transactions"
	"github.com/algorand/go-algorand/ledger/ledgercore"
	"github.com/algorand/go-algorand/protocol"
)

type vC22Key struct {
	addr  basics.Address
	asset basics.AssetIndex
}

type vC22Bal struct {
	*mockBalances // methods the asset appliers never call
	accts     map[basics.Address]ledgercore.AccountData
	hold      map[vC22Key]basics.AssetHolding
	par       map[vC22Key]basics.AssetParams
	creators  map[basics.AssetIndex]basics.Address
	maxAssets int
}

func vC22New(maxAssets int) *vC22Bal {
	return &vC22Bal{
		mockBalances: makeMockBalances(protocol.ConsensusCurrentVersion),
		accts:        map[basics.Address]ledgercore.AccountData{},
		hold:         map[vC22Key]basics.AssetHolding{},
		par:          map[vC22Key]basics.AssetParams{},
		creators:     map[basics.AssetIndex]basics.Address{},
		maxAssets:    maxAssets,
	}
}

func (b *vC22Bal) snapshot() *vC22Bal {
	return &vC22Bal{mockBalances: b.mockBalances, accts: maps.Clone(b.accts), hold: maps.Clone(b.hold),
		par: maps.Clone(b.par), creators: maps.Clone(b.creators), maxAssets: b.maxAssets}
}

func (b *vC22Bal) Get(addr basics.Address, withPendingRewards bool) (ledgercore.AccountData, error) {
	return b.accts[addr], nil
}
func (b *vC22Bal) Put(addr basics.Address, acct ledgercore.AccountData) error {
	b.accts[addr] = acct
	return nil
}
func (b *vC22Bal) GetAssetHolding(addr basics.Address, aidx basics.AssetIndex) (basics.AssetHolding, bool, error) {
	h, ok := b.hold[vC22Key{addr, aidx}]
	return h, ok, nil
}
func (b *vC22Bal) PutAssetHolding(addr basics.Address, aidx basics.AssetIndex, data basics.AssetHolding) error {
	b.hold[vC22Key{addr, aidx}] = data
	return nil
}
func (b *vC22Bal) DeleteAssetHolding(addr basics.Address, aidx basics.AssetIndex) error {
	delete(b.hold, vC22Key{addr, aidx})
	return nil
}
func (b *vC22Bal) GetAssetParams(addr basics.Address, aidx basics.AssetIndex) (basics.AssetParams, bool, error) {
	p, ok := b.par[vC22Key{addr, aidx}]
	return p, ok, nil
}
func (b *vC22Bal) HasAssetParams(addr basics.Address, aidx basics.AssetIndex) (bool, error) {
	_, ok := b.par[vC22Key{addr, aidx}]
	return ok, nil
}
func (b *vC22Bal) PutAssetParams(addr basics.Address, aidx basics.AssetIndex, data basics.AssetParams) error {
	b.par[vC22Key{addr, aidx}] = data
	return nil
}
func (b *vC22Bal) DeleteAssetParams(addr basics.Address, aidx basics.AssetIndex) error {
	delete(b.par, vC22Key{addr, aidx})
	return nil
}
func (b *vC22Bal) GetCreator(idx basics.CreatableIndex, ctype basics.CreatableType) (basics.Address, bool, error) {
	if ctype != basics.AssetCreatable {
		return basics.Address{}, false, nil
	}
	c, ok := b.creators[basics.AssetIndex(idx)]
	return c, ok, nil
}
func (b *vC22Bal) AllocateAsset(addr basics.Address, index basics.AssetIndex, global bool) error {
	if global {
		b.creators[index] = addr
	}
	return nil
}
func (b *vC22Bal) DeallocateAsset(addr basics.Address, index basics.AssetIndex, global bool) error {
	if global {
		delete(b.creators, index)
	}
	return nil
}
func (b *vC22Bal) ConsensusParams() config.ConsensusParams {
	cp := config.Consensus[protocol.ConsensusCurrentVersion]
	cp.MaxAssetsPerAccount = b.maxAssets
	return cp
}

func vC22Addr(i int) basics.Address {
	var a basics.Address
	a[0] = byte(i)
	return a
}
func vC22Num(a basics.Address) int { return int(a[0]) }

// error classes of coq/model/AssetOps.v
func vC22Class(err error) int {
	if err == nil {
		return 0
	}
	var abe *ledgercore.AssetBalanceError
	if errors.As(err, &abe) {
		return 11
	}
	s := err.Error()
	pats := []struct {
		p string
		c int
	}{
		{"does not exist or has been deleted", 1},
		{"not found in account ", 2}, // "asset index %d not found in account %s"
		{"already found asset with index", 3},
		{"too many assets in account", 4},
		{"should be issued by the manager", 5},
		{"holds no assets", 6},
		{"created no assets", 7},
		{"creator is holding only", 8},
		{"receiver error: must optin", 12},
		{"missing from", 9},
		{"asset frozen in recipient", 13},
		{"frozen in", 10},
		{"overflow on adding", 14},
		{"clawback not allowed", 15},
		{"cannot close asset by clawback", 16},
		{"cannot close asset holding on account", 17},
		{"cannot close asset ID in allocating account", 18},
		{"not present in account", 19},
		{"after closing", 20},
		{"freeze not allowed", 21},
		{"asset not found in account", 22},
	}
	for _, p := range pats {
		if strings.Contains(s, p.p) {
			return p.c
		}
	}
	return 99
}

func (b *vC22Bal) dump() []interface{} {
	hs := make([][4]uint64, 0, len(b.hold))
	for k, h := range b.hold {
		f := uint64(0)
		if h.Frozen {
			f = 1
		}
		hs = append(hs, [4]uint64{uint64(vC22Num(k.addr)), uint64(k.asset), h.Amount, f})
	}
	sort.Slice(hs, func(i, j int) bool { return hs[i][0] < hs[j][0] || (hs[i][0] == hs[j][0] && hs[i][1] < hs[j][1]) })
	hl := vL()
	for _, h := range hs {
		hl = append(hl, vL(h[0], h[1], h[2], h[3]))
	}
	type pk struct {
		c, a uint64
		p    basics.AssetParams
	}
	ps := make([]pk, 0, len(b.par))
	for k, p := range b.par {
		ps = append(ps, pk{uint64(vC22Num(k.addr)), uint64(k.asset), p})
	}
	sort.Slice(ps, func(i, j int) bool { return ps[i].c < ps[j].c || (ps[i].c == ps[j].c && ps[i].a < ps[j].a) })
	pl := vL()
	for _, p := range ps {
		pl = append(pl, vL(p.c, p.a, p.p.Total, p.p.DefaultFrozen, vC22Num(p.p.Manager), vC22Num(p.p.Reserve),
			vC22Num(p.p.Freeze), vC22Num(p.p.Clawback), vC22Meta(p.p)))
	}
	cs := make([][2]uint64, 0, len(b.creators))
	for a, c := range b.creators {
		cs = append(cs, [2]uint64{uint64(a), uint64(vC22Num(c))})
	}
	sort.Slice(cs, func(i, j int) bool { return cs[i][0] < cs[j][0] })
	cl := vL()
	for _, c := range cs {
		cl = append(cl, vL(c[0], c[1]))
	}
	as := make([][3]uint64, 0, len(b.accts))
	for a, d := range b.accts {
		if d.TotalAssets != 0 || d.TotalAssetParams != 0 {
			as = append(as, [3]uint64{uint64(vC22Num(a)), d.TotalAssets, d.TotalAssetParams})
		}
	}
	sort.Slice(as, func(i, j int) bool { return as[i][0] < as[j][0] })
	al := vL()
	for _, a := range as {
		al = append(al, vL(a[0], a[1], a[2]))
	}
	return vL(hl, pl, cl, al)
}

// the parameters no rule reads, folded into one number (0 iff all are zero values)
func vC22Meta(p basics.AssetParams) uint64 {
	m := uint64(p.Decimals)
	if p.UnitName != "" || p.AssetName != "" || p.URL != "" || p.MetadataHash != ([32]byte{}) {
		m += 1000
	}
	return m
}

type vC22Op struct {
	kind                               string
	s, a, amt, r, asnd, ct, x          uint64
	tot                                uint64
	df, f                              bool
	manager, reserve, freeze, clawback uint64
	meta                               uint64
}

func (o vC22Op) term() []interface{} {
	switch o.kind {
	case "cfg":
		return vL(vSym("cfg"), o.s, o.a, o.tot, o.df, o.manager, o.reserve, o.freeze, o.clawback, o.meta)
	case "xfer":
		return vL(vSym("xfer"), o.s, o.a, o.amt, o.r, o.asnd, o.ct)
	case "frz":
		return vL(vSym("frz"), o.s, o.a, o.x, o.f)
	}
	return vL(vSym("tick"))
}

// apply one transaction to the real code; returns (error class, ApplyData value)
func (b *vC22Bal) apply(o vC22Op, counter uint64) (int, uint64) {
	var ad transactions.ApplyData
	hdr := transactions.Header{Sender: vC22Addr(int(o.s))}
	var err error
	var v uint64
	switch o.kind {
	case "cfg":
		cc := transactions.AssetConfigTxnFields{ConfigAsset: basics.AssetIndex(o.a), AssetParams: basics.AssetParams{
			Total: o.tot, DefaultFrozen: o.df, Manager: vC22Addr(int(o.manager)), Reserve: vC22Addr(int(o.reserve)),
			Freeze: vC22Addr(int(o.freeze)), Clawback: vC22Addr(int(o.clawback)), Decimals: uint32(o.meta)}}
		err = AssetConfig(cc, hdr, b, transactions.SpecialAddresses{}, &ad, counter)
		v = uint64(ad.ConfigAsset)
	case "xfer":
		ct := transactions.AssetTransferTxnFields{XferAsset: basics.AssetIndex(o.a), AssetAmount: o.amt,
			AssetReceiver: vC22Addr(int(o.r)), AssetSender: vC22Addr(int(o.asnd)), AssetCloseTo: vC22Addr(int(o.ct))}
		err = AssetTransfer(ct, hdr, b, transactions.SpecialAddresses{}, &ad)
		v = ad.AssetClosingAmount
	case "frz":
		cf := transactions.AssetFreezeTxnFields{FreezeAsset: basics.AssetIndex(o.a), FreezeAccount: vC22Addr(int(o.x)), AssetFrozen: o.f}
		err = AssetFreeze(cf, hdr, b, transactions.SpecialAddresses{}, &ad)
	}
	if err != nil {
		return vC22Class(err), 0
	}
	return 0, v
}

type vC22Gen struct {
	r      *vRand
	b      *vC22Bal
	naccts int
}

func (g *vC22Gen) acct() uint64 {
	if g.r.Intn(40) == 0 {
		return uint64(g.r.Intn(g.naccts + 2)) // 0 (zero address) or an account without any state
	}
	return uint64(1 + g.r.Intn(g.naccts))
}

func (g *vC22Gen) assets() []uint64 {
	var l []uint64
	seen := map[uint64]bool{}
	for a := range g.b.creators {
		if !seen[uint64(a)] {
			seen[uint64(a)] = true
			l = append(l, uint64(a))
		}
	}
	for k := range g.b.hold { // destroyed assets that still have (empty) holdings
		if !seen[uint64(k.asset)] {
			seen[uint64(k.asset)] = true
			l = append(l, uint64(k.asset))
		}
	}
	sort.Slice(l, func(i, j int) bool { return l[i] < l[j] })
	return l
}

func (g *vC22Gen) asset() uint64 {
	l := g.assets()
	if len(l) == 0 || g.r.Intn(30) == 0 {
		return uint64(g.r.Intn(6))
	}
	return l[g.r.Intn(len(l))]
}

func (g *vC22Gen) params(a uint64) (basics.AssetParams, bool) {
	c, ok := g.b.creators[basics.AssetIndex(a)]
	if !ok {
		return basics.AssetParams{}, false
	}
	p, ok := g.b.par[vC22Key{c, basics.AssetIndex(a)}]
	return p, ok
}

// an address role of the asset with high probability, otherwise any account
func (g *vC22Gen) role(addr basics.Address) uint64 {
	if g.r.Intn(8) != 0 && !addr.IsZero() {
		return uint64(vC22Num(addr))
	}
	return g.acct()
}

func (g *vC22Gen) holders(a uint64) []uint64 {
	var l []uint64
	for k := range g.b.hold {
		if uint64(k.asset) == a {
			l = append(l, uint64(vC22Num(k.addr)))
		}
	}
	sort.Slice(l, func(i, j int) bool { return l[i] < l[j] })
	return l
}

func (g *vC22Gen) holder(a uint64) uint64 {
	l := g.holders(a)
	if len(l) == 0 || g.r.Intn(10) == 0 {
		return g.acct()
	}
	return l[g.r.Intn(len(l))]
}

func (g *vC22Gen) amount(x, a uint64) uint64 {
	h := g.b.hold[vC22Key{vC22Addr(int(x)), basics.AssetIndex(a)}].Amount
	switch g.r.Intn(8) {
	case 0:
		return h
	case 1:
		return h + 1
	case 2:
		return 0
	case 3:
		return g.r.Edge64()
	default:
		if h == 0 {
			return uint64(g.r.Intn(3))
		}
		return 1 + g.r.U64()%h
	}
}

func (g *vC22Gen) next() vC22Op {
	r := g.r
	k := r.Intn(100)
	a := g.asset()
	p, _ := g.params(a)
	switch {
	case k < 12 || len(g.b.creators) == 0 && k < 60: // create
		tot := []uint64{0, 1, 10, 1000, ^uint64(0), r.Edge64()}[r.Intn(6)]
		role := func() uint64 {
			if r.Intn(4) == 0 {
				return 0
			}
			return uint64(1 + r.Intn(g.naccts))
		}
		return vC22Op{kind: "cfg", s: g.acct(), a: 0, tot: tot, df: r.Intn(4) == 0, manager: role(), reserve: role(),
			freeze: role(), clawback: role(), meta: uint64(r.Intn(2) * (1 + r.Intn(5)))}
	case k < 30: // opt in
		s := g.acct()
		return vC22Op{kind: "xfer", s: s, a: a, amt: 0, r: s}
	case k < 58: // plain transfer
		s := g.holder(a)
		rc := g.holder(a)
		return vC22Op{kind: "xfer", s: s, a: a, amt: g.amount(s, a), r: rc}
	case k < 68: // clawback
		src := g.holder(a)
		return vC22Op{kind: "xfer", s: g.role(p.Clawback), a: a, amt: g.amount(src, a), r: g.holder(a), asnd: src,
			ct: uint64(r.Intn(12)/11) * g.acct()}
	case k < 80: // close out
		s := g.holder(a)
		var ct uint64
		switch r.Intn(4) {
		case 0:
			if c, ok := g.b.creators[basics.AssetIndex(a)]; ok {
				ct = uint64(vC22Num(c))
			} else {
				ct = g.acct()
			}
		case 1:
			ct = g.acct()
		default:
			ct = g.holder(a)
		}
		amt := uint64(0)
		if r.Intn(3) == 0 {
			amt = g.amount(s, a)
		}
		return vC22Op{kind: "xfer", s: s, a: a, amt: amt, r: g.holder(a), ct: ct}
	case k < 90: // freeze
		return vC22Op{kind: "frz", s: g.role(p.Freeze), a: a, x: g.holder(a), f: r.Intn(3) != 0}
	case k < 94: // reconfigure
		role := func() uint64 {
			if r.Intn(4) == 0 {
				return 0
			}
			return uint64(1 + r.Intn(g.naccts))
		}
		o := vC22Op{kind: "cfg", s: g.role(p.Manager), a: a, manager: role(), reserve: role(), freeze: role(), clawback: role()}
		if r.Intn(3) == 0 { // total / default-frozen / other fields of a reconfiguration are ignored
			o.tot, o.df, o.meta = r.Edge64(), r.Bool(), uint64(r.Intn(3))
		}
		return o
	case k < 98: // destroy
		return vC22Op{kind: "cfg", s: g.role(p.Manager), a: a}
	default:
		return vC22Op{kind: "tick"}
	}
}

func TestVerifC22(t *testing.T) {
	out := vOpen("cases_c22.txt")
	defer out.Close()
	n := vEnvInt("VERIF_C22_N", 1500)
	nops := vEnvInt("VERIF_C22_OPS", 40)
	rnd := vNewRand(22)
	kinds := map[string]int{}
	codes := map[int]int{}
	run := func(maxAssets int, script []vC22Op, gen *vC22Gen, length int) {
		b := vC22New(maxAssets)
		if gen != nil {
			gen.b = b
		}
		counter := uint64(0)
		ops, obs := vL(), vL()
		for i := 0; i < length; i++ {
			var o vC22Op
			if gen != nil {
				o = gen.next()
			} else {
				o = script[i]
			}
			snap := b.snapshot()
			code, v := b.apply(o, counter)
			if code != 0 {
				// the evaluator discards the child cow of a failed transaction
				b.accts, b.hold, b.par, b.creators = snap.accts, snap.hold, snap.par, snap.creators
			} else {
				counter++
			}
			kinds[o.kind]++
			codes[code]++
			ops = append(ops, o.term())
			d := b.dump()
			obs = append(obs, vL(code, v, d[0], d[1], d[2], d[3]))
		}
		out.Case(vSym("c22"), maxAssets, 0, ops, obs)
	}
	// the recorded deviation, replayed on the real code: a frozen holder closes out to the creator
	run(0, []vC22Op{
		{kind: "cfg", s: 1, a: 0, tot: 10, manager: 1, freeze: 1, clawback: 1},
		{kind: "xfer", s: 2, a: 1, amt: 0, r: 2},
		{kind: "xfer", s: 1, a: 1, amt: 4, r: 2},
		{kind: "frz", s: 1, a: 1, x: 2, f: true},
		{kind: "xfer", s: 2, a: 1, amt: 1, r: 1},        // refused: frozen
		{kind: "xfer", s: 2, a: 1, amt: 0, r: 2, ct: 3}, // refused: frozen (3 is not the creator; not opted in either)
		{kind: "xfer", s: 2, a: 1, amt: 0, r: 2, ct: 1}, // accepted: close-out to the creator bypasses the freeze
	}, nil, 7)
	for i := 0; i < n; i++ {
		maxAssets := 0
		if rnd.Intn(5) == 0 {
			maxAssets = 1 + rnd.Intn(3)
		}
		g := &vC22Gen{r: rnd, naccts: 3 + rnd.Intn(2)}
		run(maxAssets, nil, g, 5+rnd.Intn(nops))
	}
	ks := map[string]interface{}{}
	for k, v := range kinds {
		ks[k] = v
	}
	cs := map[string]interface{}{}
	for k, v := range codes {
		cs[fmt.Sprintf("class_%02d", k)] = v
	}
	vStats(map[string]interface{}{"histories": n + 1, "op_kinds": ks, "result_classes(00=ok)": cs})
}
