//go:build verif

package ledger

// C15 harness, part 2: the label must be a function of the ledger state only, not of the
// history of catchpoint-tracking modes.  A real tracker registry (accountUpdates, catchpointTracker,
// onlineAccounts, txTail) over a real SQLite tracker database is driven through histories of
// node starts with catchpoint tracking on / off (database copied, new trackers: the package's
// own `fork` + `newCatchpointTracker`) and rounds that move funds between accounts; after every
// start and every round the accounts round and the hash round are read from the database.
// At the end of each fork:
//
//   (memo tag ((r on db hash) | (c k db hash) ...) #persistedRoot #refRoot)
//       persistedRoot = root of the balances trie stored in the database,
//       refRoot       = root of a fresh in-memory trie over the leaves the real V6 builders give for
//                       every row of the account tables (encoded-accounts iterator + KV iterator)
//   (statepair tag (E..) (E..) (L..) (L..) I1 I2 #label1 #label2)
//       two forks of one database whose accounts diverge in the middle of the history; E/L = the
//       rows of the account tables and their leaves, I.root = persisted root, label = real MakeLabel
//
// History families: on/off/on with diverging writes while off (the hash-round memo must be
// invalidated), on/on, off/on, on/off/off/on, on/off/on/off/on, off only, segments without commits.

import (
	"context"
	"testing"
	"time"

	"github.com/stretchr/testify/require"

	"github.com/algorand/go-algorand/config"
	"github.com/algorand/go-algorand/crypto"
	"github.com/algorand/go-algorand/crypto/merkletrie"
	"github.com/algorand/go-algorand/data/basics"
	"github.com/algorand/go-algorand/data/bookkeeping"
	"github.com/algorand/go-algorand/ledger/ledgercore"
	"github.com/algorand/go-algorand/ledger/store/trackerdb"
	ledgertesting "github.com/algorand/go-algorand/ledger/testing"
	"github.com/algorand/go-algorand/logging"
	"github.com/algorand/go-algorand/protocol"
)

type vC15mNode struct {
	ml   *mockLedgerForTracker
	ops  []interface{}
	on   bool
	last basics.Round // accounts round seen last
}

func vC15mCfg(on bool) config.Local {
	cfg := config.GetDefaultLocal()
	cfg.MaxAcctLookback = 2
	cfg.CatchpointInterval = 10000
	cfg.CatchpointTracking = 1
	if !on {
		cfg.CatchpointTracking = -1
	}
	return cfg
}

func vC15mRounds(t *testing.T, ml *mockLedgerForTracker) (db, hash basics.Round) {
	ml.trackers.waitAccountsWriting()
	err := ml.dbs.Snapshot(func(ctx context.Context, tx trackerdb.SnapshotScope) error {
		ar, err := tx.MakeAccountsReader()
		if err != nil {
			return err
		}
		if db, err = ar.AccountsRound(); err != nil {
			return err
		}
		hash, err = ar.AccountsHashRound(ctx)
		return err
	})
	require.NoError(t, err)
	return
}

// start: copy the databases and blocks, new trackers with the given tracking mode
func (n *vC15mNode) restart(t *testing.T, on bool) *vC15mNode {
	n.ml.trackers.waitAccountsWriting()
	ml2 := n.ml.fork(t)
	require.NotNil(t, ml2)
	newCatchpointTracker(t, ml2, vC15mCfg(on), ".")
	m := &vC15mNode{ml: ml2, ops: append([]interface{}{}, n.ops...), on: on}
	db, hash := vC15mRounds(t, ml2)
	m.ops = append(m.ops, vL(vSym("r"), on, uint64(db), uint64(hash)))
	if db != n.last {
		t.Fatalf("accounts round moved during a start: %d -> %d", n.last, db)
	}
	m.last = db
	return m
}

// one round moving one microalgo from the pool to target, committed right away
func (n *vC15mNode) round(t *testing.T, proto protocol.ConsensusVersion, target basics.Address) {
	ml := n.ml
	au := ml.trackers.accts
	rnd, totals, err := au.LatestTotals()
	require.NoError(t, err)
	rnd++
	var updates ledgercore.AccountDeltas
	for _, addr := range []basics.Address{target, testPoolAddr} {
		ad, _, err := au.LookupWithoutRewards(rnd-1, addr)
		require.NoError(t, err)
		if addr == target {
			ad.MicroAlgos.Raw++
		} else {
			ad.MicroAlgos.Raw--
		}
		updates.Upsert(addr, ad)
	}
	blk := bookkeeping.Block{BlockHeader: bookkeeping.BlockHeader{Round: rnd}}
	blk.CurrentProtocol = proto
	delta := ledgercore.MakeStateDelta(&blk.BlockHeader, 0, updates.Len(), 0)
	delta.Accts.MergeAccounts(updates)
	delta.Totals = totals
	ml.addBlock(blockEntry{block: blk}, delta)
	ml.trackers.mu.Lock()
	ml.trackers.lastFlushTime = time.Time{} // do not wait for balancesFlushInterval
	ml.trackers.mu.Unlock()
	ml.trackers.committedUpTo(rnd)
	db, hash := vC15mRounds(t, ml)
	if db > n.last {
		n.ops = append(n.ops, vL(vSym("c"), uint64(db-n.last), uint64(db), uint64(hash)))
		n.last = db
	}
}

func vC15mPersistedRoot(t *testing.T, ml *mockLedgerForTracker) (root crypto.Digest) {
	ml.trackers.waitAccountsWriting()
	err := ml.dbs.Transaction(func(ctx context.Context, tx trackerdb.TransactionScope) error {
		mc, err := tx.MakeMerkleCommitter(false)
		if err != nil {
			return err
		}
		trie, err := merkletrie.MakeTrie(mc, trackerdb.TrieMemoryConfig)
		if err != nil {
			return err
		}
		root, err = trie.RootHash()
		return err
	})
	require.NoError(t, err)
	return
}

// every row of the account tables as an entry term, its leaf from the real builders, and the
// root of a fresh in-memory trie over those leaves
func vC15mTables(t *testing.T, ml *mockLedgerForTracker) (es, ls []interface{}, root crypto.Digest) {
	es, ls = vL(), vL()
	trie, err := merkletrie.MakeTrie(nil, trackerdb.TrieMemoryConfig)
	require.NoError(t, err)
	add := func(e []interface{}, leaf []byte) {
		es = append(es, e)
		ls = append(ls, leaf)
		_, err := trie.Add(leaf)
		require.NoError(t, err)
	}
	err = ml.dbs.Snapshot(func(ctx context.Context, tx trackerdb.SnapshotScope) error {
		it := tx.MakeEncodedAccountsBatchIter()
		defer it.Close()
		for {
			bals, _, err := it.Next(ctx, 1000, 100000)
			if err != nil {
				return err
			}
			if len(bals) == 0 {
				break
			}
			for _, b := range bals {
				var ad trackerdb.BaseAccountData
				if err := protocol.Decode(b.AccountData, &ad); err != nil {
					return err
				}
				if !b.ExpectingMoreEntries {
					add(vL(vSym("acct"), b.Address[:], ad.UpdateRound, ad.RewardsBase, []byte(b.AccountData)),
						trackerdb.AccountHashBuilderV6(b.Address, &ad, b.AccountData))
				}
				for cidx, res := range b.Resources {
					var rd trackerdb.ResourcesData
					if err := protocol.Decode(res, &rd); err != nil {
						return err
					}
					leaf, err := trackerdb.ResourcesHashBuilderV6(&rd, b.Address, basics.CreatableIndex(cidx), rd.UpdateRound, res)
					if err != nil {
						return err
					}
					add(vL(vSym("res"), b.Address[:], cidx, rd.IsAsset(), rd.IsApp(), rd.UpdateRound, []byte(res)), leaf)
				}
			}
		}
		kvs, err := tx.MakeKVsIter(ctx)
		if err != nil {
			return err
		}
		defer kvs.Close()
		for kvs.Next() {
			k, v, err := kvs.KeyValue()
			if err != nil {
				return err
			}
			if v == nil {
				v = []byte{}
			}
			add(vL(vSym("kv"), append([]byte{}, k...), append([]byte{}, v...)), trackerdb.KvHashBuilderV6(string(k), v))
		}
		return nil
	})
	require.NoError(t, err)
	root, err = trie.RootHash()
	require.NoError(t, err)
	return
}

func vC15mLabelInput(round basics.Round, root crypto.Digest) ([]interface{}, string) {
	var bh, z crypto.Digest
	bh[0] = 0xb1
	tot := ledgercore.AccountTotals{RewardsLevel: 7}
	tot.Offline.Money.Raw = 1 << 40
	lm := ledgercore.MakeCatchpointLabelMakerCurrent(round, &bh, &root, tot, &z, &z, &z)
	in := vL(8, uint64(round), bh[:], root[:], vL(0, 0, uint64(1<<40), 0, 0, 0, 7), protocol.EncodeReflect(&tot), z[:], z[:], z[:])
	return in, ledgercore.MakeLabel(lm)
}

// mode patterns; the fork point is after segment `fork` (the two forks fund different accounts from there on)
var vC15mPatterns = []struct {
	tag   string
	modes []bool
	fork  int
}{
	{"memo_on_off_on", []bool{true, false, true}, 1},
	{"memo_on_off_on_late_fork", []bool{true, false, true}, 2},
	{"memo_on_on", []bool{true, true}, 1},
	{"memo_off_on", []bool{false, true}, 0},
	{"memo_on_off_off_on", []bool{true, false, false, true}, 1},
	{"memo_on_off_on_off_on", []bool{true, false, true, false, true}, 3},
	{"memo_on_off", []bool{true, false}, 1},
	{"memo_off_off", []bool{false, false}, 1},
}

func TestVerifC15Memo(t *testing.T) {
	t.Chdir(t.TempDir()) // database files and catchpoint directories of the forks stay out of the source tree
	logging.Base().SetLevel(logging.Error)
	out := vOpen("cases_c15memo.txt")
	tags := map[string]int{}
	r := vNewRand(0xC15 + 7)
	proto := protocol.ConsensusCurrentVersion
	nHist := vEnvInt("VERIF_C15_HIST", 4)
	for h := 0; h < nHist; h++ {
		pat := vC15mPatterns[h%len(vC15mPatterns)]
		if h >= len(vC15mPatterns) && r.Intn(2) == 0 {
			// random pattern
			pat.tag = "memo_random"
			pat.modes = nil
			for j, n := 0, 2+r.Intn(4); j < n; j++ {
				pat.modes = append(pat.modes, r.Bool())
			}
			pat.fork = r.Intn(len(pat.modes))
		}
		accts := []map[basics.Address]basics.AccountData{ledgertesting.RandomAccounts(6+r.Intn(6), true)}
		addSinkAndPoolAccounts(accts)
		var addrs []basics.Address
		for addr := range accts[0] {
			if addr != testPoolAddr && addr != testSinkAddr {
				addrs = append(addrs, addr)
			}
		}
		ml0 := makeMockLedgerForTracker(t, false, 1, proto, accts)
		base := &vC15mNode{ml: ml0}
		var closers []*mockLedgerForTracker
		closers = append(closers, ml0)
		// common prefix
		seglen := func() int {
			if r.Intn(6) == 0 {
				return r.Intn(3) // possibly no commit in this segment
			}
			return 3 + r.Intn(5)
		}
		first := true
		for s := 0; s < pat.fork; s++ {
			if first {
				newCatchpointTracker(t, ml0, vC15mCfg(pat.modes[s]), ".")
				db, hash := vC15mRounds(t, ml0)
				base.on, base.last = pat.modes[s], db
				base.ops = append(base.ops, vL(vSym("r"), pat.modes[s], uint64(db), uint64(hash)))
				first = false
			} else {
				base = base.restart(t, pat.modes[s])
				closers = append(closers, base.ml)
			}
			for k, n := 0, seglen(); k < n; k++ {
				base.round(t, proto, addrs[r.Intn(len(addrs))])
			}
		}
		// two forks with diverging writes
		lens := make([]int, len(pat.modes))
		for s := range lens {
			lens[s] = seglen()
			if s == pat.fork && lens[s] < 4 {
				lens[s] = 4 // the divergence reaches the database
			}
		}
		var es, ls [2][]interface{}
		var ins [2][]interface{}
		var labels [2]string
		for f := 0; f < 2; f++ {
			n := base
			for s := pat.fork; s < len(pat.modes); s++ {
				if s == 0 {
					// fork at the very beginning: both forks start from copies of the fresh database
					ml := ml0.fork(t)
					require.NotNil(t, ml)
					closers = append(closers, ml)
					newCatchpointTracker(t, ml, vC15mCfg(pat.modes[0]), ".")
					db, hash := vC15mRounds(t, ml)
					n = &vC15mNode{ml: ml, on: pat.modes[0], last: db}
					n.ops = append(n.ops, vL(vSym("r"), pat.modes[0], uint64(db), uint64(hash)))
				} else {
					n = n.restart(t, pat.modes[s])
					closers = append(closers, n.ml)
				}
				for k := 0; k < lens[s]; k++ {
					target := addrs[(k+s)%len(addrs)]
					if s == pat.fork {
						target = addrs[f] // the divergence
					}
					n.round(t, proto, target)
				}
			}
			persisted := vC15mPersistedRoot(t, n.ml)
			var ref crypto.Digest
			es[f], ls[f], ref = vC15mTables(t, n.ml)
			out.Case(vSym("memo"), vSym(pat.tag), n.ops, persisted[:], ref[:])
			tags[pat.tag]++
			ins[f], labels[f] = vC15mLabelInput(n.last, persisted)
		}
		if pat.modes[len(pat.modes)-1] {
			// both forks end as tracking nodes at the same round with different accounts
			out.Case(vSym("statepair"), vSym(pat.tag+"_forks"), es[0], es[1], ls[0], ls[1], ins[0], ins[1], labels[0], labels[1])
			tags[pat.tag+"_forks"]++
		}
		for _, ml := range closers {
			ml.Close()
		}
	}
	out.Close()
	vStats(map[string]interface{}{"cases": out.n, "cases_by_family": tags})
}
