//go:build verif

package testsuite

// C47 harness: opens the SQLite tracker store (in memory) and the Pebble key-value tracker
// store (temp dir under $VERIF_OUT, removed afterwards) through the same trackerdb.Store
// interface, applies the same random, protocol-respecting write batches to both (accounts,
// resources, app kv pairs incl. prefix-related / 0x00 / 0xff-tailed keys, creatables, online
// account history over many rounds incl. the xxFF round boundaries, online-account pruning,
// tx tail, online round params, state proof contexts, totals) and then every reader query with
// boundary-heavy parameters.  One case line per query:
//     ( (op ...) query sqlite-observation kv-observation )
// Both observations are canonicalised the same way (payload numbers instead of msgpack
// structs, refs reduced to present/absent, maps sorted, errors reduced to a small enum).

import (
	"bytes"
	"context"
	"database/sql"
	"errors"
	"fmt"
	"os"
	"path/filepath"
	"sort"
	"strings"
	"testing"

	"github.com/stretchr/testify/require"

	"github.com/algorand/go-algorand/config"
	"github.com/algorand/go-algorand/crypto"
	"github.com/algorand/go-algorand/data/basics"
	"github.com/algorand/go-algorand/ledger/ledgercore"
	"github.com/algorand/go-algorand/ledger/store/trackerdb"
	"github.com/algorand/go-algorand/ledger/store/trackerdb/pebbledbdriver"
	"github.com/algorand/go-algorand/ledger/store/trackerdb/sqlitedriver"
	"github.com/algorand/go-algorand/logging"
	"github.com/algorand/go-algorand/protocol"
)

type c47Res struct {
	kind    int // 0 asset, 1 app
	payload uint64
}

type c47Onl struct {
	normbal, votelast, algos uint64
}

type c47AI struct {
	a basics.Address
	i uint64
}

// shadow of the logical content, used only to generate protocol-respecting operations
type c47Shadow struct {
	round    uint64
	accts    map[basics.Address]uint64
	res      map[c47AI]c47Res
	kvs      map[string][]byte
	creat    map[uint64]int
	online   map[c47AI]c47Onl
	txtail   map[uint64]bool
	orp      map[uint64]bool
	sp       map[uint64]bool
	stagingT bool
}

type c47Handles struct {
	db  trackerdb.Store
	aw  trackerdb.AccountsWriterExt
	ar  trackerdb.AccountsReaderExt
	aow trackerdb.AccountsWriter
	aor trackerdb.AccountsReader
	oaw trackerdb.OnlineAccountsWriter
	oar trackerdb.OnlineAccountsReader
	spw trackerdb.SpVerificationCtxWriter
	spr trackerdb.SpVerificationCtxReader
}

func c47Handle(t *testing.T, db trackerdb.Store) *c47Handles {
	h := &c47Handles{db: db}
	var err error
	h.aw, err = db.MakeAccountsWriter()
	require.NoError(t, err)
	h.ar, err = db.MakeAccountsReader()
	require.NoError(t, err)
	h.aow, err = db.MakeAccountsOptimizedWriter(true, true, true, true)
	require.NoError(t, err)
	h.aor, err = db.MakeAccountsOptimizedReader()
	require.NoError(t, err)
	h.oaw, err = db.MakeOnlineAccountsOptimizedWriter(true)
	require.NoError(t, err)
	h.oar, err = db.MakeOnlineAccountsOptimizedReader()
	require.NoError(t, err)
	h.spw = db.MakeSpVerificationCtxWriter()
	h.spr = db.MakeSpVerificationCtxReader()
	return h
}

func (h *c47Handles) close() {
	h.aow.Close()
	h.aor.Close()
	h.oaw.Close()
	h.oar.Close()
	h.db.Close()
}

var c47RewardUnit = config.Consensus[protocol.ConsensusCurrentVersion].RewardUnit

func c47Acct(p uint64) trackerdb.BaseAccountData {
	return trackerdb.BaseAccountData{MicroAlgos: basics.MicroAlgos{Raw: p}, UpdateRound: p % 7}
}

func c47ResData(r c47Res) trackerdb.ResourcesData {
	rd := trackerdb.MakeResourcesData(0)
	if r.kind == 0 {
		rd.SetAssetHolding(basics.AssetHolding{Amount: r.payload})
	} else {
		rd.SetAppLocalState(basics.AppLocalState{Schema: basics.StateSchema{NumUint: r.payload}})
	}
	return rd
}

// canonical (kind payload) of a resource record; payload -1 when the record is not one we wrote
func c47ResObs(rd trackerdb.ResourcesData) []interface{} {
	var r c47Res
	switch {
	case rd.IsAsset() && !rd.IsApp():
		r = c47Res{0, rd.Amount}
	case rd.IsApp() && !rd.IsAsset():
		r = c47Res{1, rd.SchemaNumUint}
	default:
		return vL(-1, -1)
	}
	if !bytes.Equal(protocol.Encode(&rd), func() []byte { x := c47ResData(r); return protocol.Encode(&x) }()) {
		return vL(r.kind, -1)
	}
	return vL(r.kind, r.payload)
}

func c47OnlData(o c47Onl) trackerdb.BaseOnlineAccountData {
	d := trackerdb.BaseOnlineAccountData{MicroAlgos: basics.MicroAlgos{Raw: o.algos}}
	if o.votelast != 0 {
		d.VoteLastValid = basics.Round(o.votelast)
		d.VoteFirstValid = 1
		d.VoteKeyDilution = 10
	}
	return d
}

// canonical (algos votelast); -1 when it is not a record we wrote
func c47OnlObs(d trackerdb.BaseOnlineAccountData) []interface{} {
	o := c47Onl{votelast: uint64(d.VoteLastValid), algos: d.MicroAlgos.Raw}
	x := c47OnlData(o)
	if x != d {
		return vL(-1, -1)
	}
	return vL(o.algos, o.votelast)
}

func c47TxTail(p uint64) []byte {
	return protocol.Encode(&trackerdb.TxTailRound{LastValid: []basics.Round{basics.Round(p)}})
}

func c47Err(err error) []interface{} {
	switch {
	case errors.Is(err, trackerdb.ErrNotFound):
		return vL(vSym("err"), vSym("notfound"))
	case errors.Is(err, sql.ErrNoRows):
		return vL(vSym("err"), vSym("norows"))
	case strings.Contains(err.Error(), "not supported"):
		return vL(vSym("err"), vSym("notsupported"))
	case strings.Contains(err.Error(), "strange prefix"):
		return vL(vSym("err"), vSym("strangeprefix"))
	case strings.Contains(err.Error(), "converting NULL to int64"):
		return vL(vSym("err"), vSym("nullscan"))
	}
	return vL(vSym("err"), vSym("other"))
}

// ---------------------------------------------------------------- operations

type c47Op struct {
	term  []interface{}
	apply func(h *c47Handles) error
}

type c47Gen struct {
	r      *vRand
	sh     *c47Shadow
	addrs  []basics.Address
	keys   []string
	aidxs  []uint64
	rounds []uint64
}

func c47NewGen(r *vRand) *c47Gen {
	g := &c47Gen{r: r}
	g.sh = &c47Shadow{accts: map[basics.Address]uint64{}, res: map[c47AI]c47Res{}, kvs: map[string][]byte{}, creat: map[uint64]int{},
		online: map[c47AI]c47Onl{}, txtail: map[uint64]bool{}, orp: map[uint64]bool{0: true}, sp: map[uint64]bool{}}
	// address pool: extremes, shared prefixes, separator-like bytes ('-' 0x2d, '.' 0x2e), random
	var a0, aff, ap1, ap2, asep basics.Address
	for i := range aff {
		aff[i] = 0xff
	}
	copy(ap1[:], r.Bytes(32))
	ap2 = ap1
	ap2[31] ^= 1
	copy(asep[:], r.Bytes(32))
	asep[0], asep[31] = '-', '.'
	g.addrs = []basics.Address{a0, aff, ap1, ap2, asep}
	for i := 0; i < 2+r.Intn(3); i++ {
		var a basics.Address
		copy(a[:], r.Bytes(32))
		g.addrs = append(g.addrs, a)
	}
	// app kv key pool: prefix chains, 0x00 / 0xff tails, box-like keys with embedded zero bytes
	base := []string{"", "a", "a\x00", "a\xff", "a\xff\xff", "a\xff\x00", "ab", "ab\xff", "b", "\xff", "\xff\xff", "\xff\x00", "-", ".", "xc-a",
		"bx:\x00\x00\x00\x00\x00\x00\x00\x05n", "bx:\x00\x00\x00\x00\x00\x00\x00\x05n2", "bx:\x00\x00\x00\x00\x00\x00\x00\x06", "bx:\x00\x00\x00\x00\x00\x00\x00\xffz"}
	g.keys = append(g.keys, base...)
	for i := 0; i < 6; i++ {
		k := base[r.Intn(len(base))] + string(r.Bytes(1+r.Intn(3)))
		g.keys = append(g.keys, k)
	}
	g.aidxs = []uint64{0, 1, 2, 3, 255, 256, 65535, 1 << 32, 1<<63 - 1, uint64(r.Intn(1000)), r.U64() >> 1}
	g.rounds = []uint64{0, 1, 2, 3, 4, 5, 254, 255, 256, 257, 511, 512, 65535, 65536, 1<<32 - 1, 1 << 32, 1<<63 - 1}
	return g
}

func (g *c47Gen) addr() basics.Address { return g.addrs[g.r.Intn(len(g.addrs))] }
func (g *c47Gen) key() string          { return g.keys[g.r.Intn(len(g.keys))] }
func (g *c47Gen) aidx() uint64         { return g.aidxs[g.r.Intn(len(g.aidxs))] }
func (g *c47Gen) payload() uint64      { return 1 + uint64(g.r.Intn(1000000)) }
func (g *c47Gen) roundNear() uint64 {
	// rounds near the current db round and the byte boundaries
	switch g.r.Intn(4) {
	case 0:
		return g.rounds[g.r.Intn(len(g.rounds))]
	case 1:
		return g.sh.round + uint64(g.r.Intn(4))
	case 2:
		if d := uint64(g.r.Intn(300)); d <= g.sh.round {
			return g.sh.round - d
		}
		return 0
	default:
		return uint64(g.r.Intn(600))
	}
}
func (g *c47Gen) value() []byte {
	switch g.r.Intn(5) {
	case 0:
		return []byte{}
	case 1:
		return nil
	default:
		return g.r.Bytes(1 + g.r.Intn(6))
	}
}

func c47AcctRef(h *c47Handles, a basics.Address) (trackerdb.AccountRef, error) {
	return h.ar.LookupAccountRowID(a)
}

// one random operation that respects the writers' protocol (insert absent / update, delete present / rounds forward)
func (g *c47Gen) op() *c47Op {
	sh, r := g.sh, g.r
	for {
		switch r.Intn(22) {
		case 0: // round forward
			nr := sh.round + uint64(r.Intn(3))
			if r.Intn(4) == 0 {
				nr = sh.round + uint64(r.Intn(300))
			}
			sh.round = nr
			return &c47Op{vL(vSym("uar"), nr), func(h *c47Handles) error { return h.aw.UpdateAccountsRound(basics.Round(nr)) }}
		case 1, 2: // insert / update account
			a, p := g.addr(), g.payload()
			if _, ok := sh.accts[a]; ok {
				sh.accts[a] = p
				return &c47Op{vL(vSym("ua"), a[:], p), func(h *c47Handles) error {
					ref, err := c47AcctRef(h, a)
					if err != nil {
						return err
					}
					n, err := h.aow.UpdateAccount(ref, 0, c47Acct(p))
					if err == nil && n != 1 {
						err = fmt.Errorf("rows affected %d", n)
					}
					return err
				}}
			}
			sh.accts[a] = p
			return &c47Op{vL(vSym("ia"), a[:], p), func(h *c47Handles) error {
				ref, err := h.aow.InsertAccount(a, 0, c47Acct(p))
				if err == nil && ref == nil {
					err = fmt.Errorf("nil ref")
				}
				return err
			}}
		case 3: // delete account (only without resources)
			a := g.addr()
			if _, ok := sh.accts[a]; !ok {
				continue
			}
			has := false
			for k := range sh.res {
				if k.a == a {
					has = true
				}
			}
			if has {
				continue
			}
			delete(sh.accts, a)
			return &c47Op{vL(vSym("da"), a[:]), func(h *c47Handles) error {
				ref, err := c47AcctRef(h, a)
				if err != nil {
					return err
				}
				n, err := h.aow.DeleteAccount(ref)
				if err == nil && n != 1 {
					err = fmt.Errorf("rows affected %d", n)
				}
				return err
			}}
		case 4, 5, 6: // insert / update resource
			a := g.addr()
			if _, ok := sh.accts[a]; !ok {
				continue
			}
			k := c47AI{a, g.aidx()}
			nr := c47Res{r.Intn(2), g.payload()}
			if old, ok := sh.res[k]; ok {
				nr.kind = old.kind // the ctype column of an existing row is never rewritten by UpdateResource
				sh.res[k] = nr
				return &c47Op{vL(vSym("ur"), a[:], k.i, nr.kind, nr.payload), func(h *c47Handles) error {
					ref, err := c47AcctRef(h, a)
					if err != nil {
						return err
					}
					n, err := h.aow.UpdateResource(ref, basics.CreatableIndex(k.i), c47ResData(nr))
					if err == nil && n != 1 {
						err = fmt.Errorf("rows affected %d", n)
					}
					return err
				}}
			}
			sh.res[k] = nr
			return &c47Op{vL(vSym("ir"), a[:], k.i, nr.kind, nr.payload), func(h *c47Handles) error {
				ref, err := c47AcctRef(h, a)
				if err != nil {
					return err
				}
				_, err = h.aow.InsertResource(ref, basics.CreatableIndex(k.i), c47ResData(nr))
				return err
			}}
		case 7: // delete resource
			if len(sh.res) == 0 {
				continue
			}
			var ks []c47AI
			for k := range sh.res {
				ks = append(ks, k)
			}
			sort.Slice(ks, func(i, j int) bool {
				if c := bytes.Compare(ks[i].a[:], ks[j].a[:]); c != 0 {
					return c < 0
				}
				return ks[i].i < ks[j].i
			})
			k := ks[r.Intn(len(ks))]
			delete(sh.res, k)
			return &c47Op{vL(vSym("dr"), k.a[:], k.i), func(h *c47Handles) error {
				ref, err := c47AcctRef(h, k.a)
				if err != nil {
					return err
				}
				n, err := h.aow.DeleteResource(ref, basics.CreatableIndex(k.i))
				if err == nil && n != 1 {
					err = fmt.Errorf("rows affected %d", n)
				}
				return err
			}}
		case 8, 9, 10: // upsert kv
			k, v := g.key(), g.value()
			sh.kvs[k] = v
			return &c47Op{vL(vSym("uk"), k, v), func(h *c47Handles) error { return h.aow.UpsertKvPair(k, v) }}
		case 11: // delete kv (present or absent: both backends accept it)
			k := g.key()
			delete(sh.kvs, k)
			return &c47Op{vL(vSym("dk"), k), func(h *c47Handles) error { return h.aow.DeleteKvPair(k) }}
		case 12: // insert creatable
			i, ct, cr := g.aidx(), r.Intn(2), g.addr()
			if _, ok := sh.creat[i]; ok {
				continue
			}
			sh.creat[i] = ct
			return &c47Op{vL(vSym("ic"), i, ct, cr[:]), func(h *c47Handles) error {
				_, err := h.aow.InsertCreatable(basics.CreatableIndex(i), basics.CreatableType(ct), cr[:])
				return err
			}}
		case 13: // delete creatable with its own type
			i := g.aidx()
			ct, ok := sh.creat[i]
			if !ok {
				continue
			}
			delete(sh.creat, i)
			return &c47Op{vL(vSym("dc"), i, ct), func(h *c47Handles) error {
				n, err := h.aow.DeleteCreatable(basics.CreatableIndex(i), basics.CreatableType(ct))
				if err == nil && n != 1 {
					err = fmt.Errorf("rows affected %d", n)
				}
				return err
			}}
		case 14, 15, 16: // online account row
			a := g.addr()
			k := c47AI{a, g.roundNear()}
			if _, ok := sh.online[k]; ok {
				continue
			}
			o := c47Onl{}
			if r.Intn(4) != 0 { // online: voting data, positive balance; otherwise the all-empty offline marker row
				o.algos = g.payload()
				o.votelast = 1 + uint64(r.Intn(700))
			}
			d := c47OnlData(o)
			o.normbal = d.NormalizedOnlineBalance(c47RewardUnit)
			if o.votelast == 0 {
				o.normbal = 0
			}
			sh.online[k] = o
			return &c47Op{vL(vSym("io"), a[:], k.i, o.normbal, o.votelast, o.algos), func(h *c47Handles) error {
				ref, err := h.oaw.InsertOnlineAccount(a, o.normbal, d, k.i, o.votelast)
				if err == nil && ref == nil {
					err = fmt.Errorf("nil ref")
				}
				return err
			}}
		case 17: // prune online accounts
			fb := g.roundNear()
			// shadow: recomputed by the model; only the key set matters for generation
			latest := map[basics.Address]uint64{}
			has := map[basics.Address]bool{}
			for k := range sh.online {
				if k.i < fb && (!has[k.a] || k.i > latest[k.a]) {
					latest[k.a], has[k.a] = k.i, true
				}
			}
			for k, o := range sh.online {
				if k.i < fb && (k.i != latest[k.a] || o.votelast == 0) {
					delete(sh.online, k)
				}
			}
			return &c47Op{vL(vSym("od"), fb), func(h *c47Handles) error { return h.aw.OnlineAccountsDelete(basics.Round(fb)) }}
		case 18: // tx tail: usually the contiguous next rounds, sometimes a gap
			var mx uint64
			found := false
			for k := range sh.txtail {
				if !found || k > mx {
					mx, found = k, true
				}
			}
			base := mx + 1
			if !found {
				base = g.roundNear() % (1 << 40)
			} else if r.Intn(6) == 0 {
				base = mx + 2 + uint64(r.Intn(3))
			}
			n := r.Intn(4)
			var ps []interface{}
			var datas [][]byte
			for i := 0; i < n; i++ {
				p := g.payload()
				ps = append(ps, p)
				datas = append(datas, c47TxTail(p))
				sh.txtail[base+uint64(i)] = true
			}
			fb := uint64(0)
			if r.Intn(2) == 0 {
				fb = base + uint64(n) - uint64(r.Intn(5))
				if fb > base+uint64(n) {
					fb = 0
				}
			}
			for k := range sh.txtail {
				if k < fb {
					delete(sh.txtail, k)
				}
			}
			return &c47Op{vL(vSym("tt"), base, ps, fb), func(h *c47Handles) error {
				return h.aw.TxtailNewRound(context.Background(), basics.Round(base), datas, basics.Round(fb))
			}}
		case 19: // online round params: append after the newest, or prune
			var mx uint64
			for k := range sh.orp {
				if k > mx {
					mx = k
				}
			}
			if r.Intn(3) == 0 {
				pr := g.roundNear()
				for k := range sh.orp {
					if k < pr {
						delete(sh.orp, k)
					}
				}
				return &c47Op{vL(vSym("pr"), pr), func(h *c47Handles) error { return h.aw.AccountsPruneOnlineRoundParams(basics.Round(pr)) }}
			}
			start := mx + 1
			if len(sh.orp) == 0 {
				start = g.roundNear() % (1 << 40)
			}
			if r.Intn(4) == 0 {
				start += 254
			}
			n := 1 + r.Intn(3)
			var ps []interface{}
			var datas []ledgercore.OnlineRoundParamsData
			for i := 0; i < n; i++ {
				p := g.payload()
				ps = append(ps, p)
				datas = append(datas, ledgercore.OnlineRoundParamsData{OnlineSupply: p})
				sh.orp[start+uint64(i)] = true
			}
			return &c47Op{vL(vSym("po"), ps, start), func(h *c47Handles) error { return h.aw.AccountsPutOnlineRoundParams(datas, basics.Round(start)) }}
		case 20: // state proof contexts
			if r.Intn(3) == 0 {
				e := g.roundNear()
				for k := range sh.sp {
					if k < e {
						delete(sh.sp, k)
					}
				}
				return &c47Op{vL(vSym("ds"), e), func(h *c47Handles) error {
					return h.spw.DeleteOldSPContexts(context.Background(), basics.Round(e))
				}}
			}
			n := 1 + r.Intn(2)
			var ts []interface{}
			var vcs []*ledgercore.StateProofVerificationContext
			for i := 0; i < n; i++ {
				rd, p := g.roundNear(), g.payload()
				if sh.sp[rd] {
					continue
				}
				sh.sp[rd] = true
				ts = append(ts, vL(rd, p))
				vcs = append(vcs, &ledgercore.StateProofVerificationContext{LastAttestedRound: basics.Round(rd), OnlineTotalWeight: basics.MicroAlgos{Raw: p}})
			}
			return &c47Op{vL(vSym("ss"), ts), func(h *c47Handles) error { return h.spw.StoreSPContexts(context.Background(), vcs) }}
		case 21: // totals
			st, p := r.Intn(3) == 0, g.payload()
			if st {
				sh.stagingT = true
			}
			return &c47Op{vL(vSym("pt"), st, p), func(h *c47Handles) error {
				return h.aw.AccountsPutTotals(ledgercore.AccountTotals{RewardsLevel: p}, st)
			}}
		}
	}
}

// ---------------------------------------------------------------- queries

type c47Query struct {
	term []interface{}
	run  func(h *c47Handles) []interface{}
}

func c47SortedAddrs[T any](m map[basics.Address]T) []basics.Address {
	var as []basics.Address
	for a := range m {
		as = append(as, a)
	}
	sort.Slice(as, func(i, j int) bool { return bytes.Compare(as[i][:], as[j][:]) < 0 })
	return as
}

func (g *c47Gen) query() *c47Query {
	r := g.r
	ctx := context.Background()
	switch r.Intn(30) {
	case 0:
		a := g.addr()
		return &c47Query{vL(vSym("qacct"), a[:]), func(h *c47Handles) []interface{} {
			d, err := h.aor.LookupAccount(a)
			if err != nil {
				return c47Err(err)
			}
			p := int64(d.AccountData.MicroAlgos.Raw)
			if d.AccountData != c47Acct(uint64(p)) && (d.Ref != nil || d.AccountData != trackerdb.BaseAccountData{}) {
				p = -1
			}
			return vL(uint64(d.Round), d.Addr == a, d.Ref != nil, p)
		}}
	case 1, 2:
		a, i, ct := g.addr(), g.aidx(), r.Intn(2)
		return &c47Query{vL(vSym("qres"), a[:], i, ct), func(h *c47Handles) []interface{} {
			d, err := h.aor.LookupResources(a, basics.CreatableIndex(i), basics.CreatableType(ct))
			if err != nil {
				return c47Err(err)
			}
			if d.AcctRef == nil {
				return vL(uint64(d.Round), uint64(d.Aidx), false, bytes.Equal(protocol.Encode(&d.Data), func() []byte { x := trackerdb.MakeResourcesData(0); return protocol.Encode(&x) }()))
			}
			return vL(uint64(d.Round), uint64(d.Aidx), true, c47ResObs(d.Data))
		}}
	case 3, 4:
		a := g.addr()
		return &c47Query{vL(vSym("qallres"), a[:]), func(h *c47Handles) []interface{} {
			ds, rnd, err := h.aor.LookupAllResources(a)
			if err != nil {
				return c47Err(err)
			}
			var l []interface{}
			for _, d := range ds {
				l = append(l, vL(uint64(d.Aidx), uint64(d.Round), d.AcctRef != nil, c47ResObs(d.Data)))
			}
			return vL(uint64(rnd), l)
		}}
	case 5:
		a, mi, mx, ct := g.addr(), g.aidx(), uint64(r.Intn(5)), r.Intn(2)
		return &c47Query{vL(vSym("qlimres"), a[:], mi, mx, ct), func(h *c47Handles) []interface{} {
			ds, rnd, err := h.aor.LookupLimitedResources(a, basics.CreatableIndex(mi), mx, basics.CreatableType(ct))
			if err != nil {
				return c47Err(err)
			}
			var l []interface{}
			for _, d := range ds {
				l = append(l, uint64(d.Aidx))
			}
			return vL(uint64(rnd), l)
		}}
	case 6, 7:
		k := g.key()
		return &c47Query{vL(vSym("qkv"), k), func(h *c47Handles) []interface{} {
			d, err := h.aor.LookupKeyValue(k)
			if err != nil {
				return c47Err(err)
			}
			return vL(uint64(d.Round), d.Value != nil, d.Value)
		}}
	case 8, 9, 10:
		// prefix of a pool key (or a pool key, or a strange prefix); results map pre-populated like the
		// in-memory deltas do: (key, present-in-later-round?) for keys that carry the prefix
		k := g.key()
		p := k[:r.Intn(len(k)+1)]
		if r.Intn(12) == 0 {
			p = []string{"", "\xff", "\xff\xff"}[r.Intn(3)]
		}
		prem := map[string]bool{}
		var cnt uint64
		for i := r.Intn(3); i > 0; i-- {
			pk := g.key()
			if _, ok := prem[pk]; ok || !strings.HasPrefix(pk, p) {
				continue
			}
			f := r.Bool()
			prem[pk] = f
			if f {
				cnt++
			}
		}
		max := cnt + 1 + uint64(r.Intn(4))
		if r.Intn(3) == 0 {
			max = cnt + 1000
		}
		return c47QPfx(p, max, prem, cnt)
	case 11, 12, 13:
		k := g.key()
		p := k[:r.Intn(len(k)+1)]
		if r.Intn(12) == 0 {
			p = []string{"", "\xff", "\xff\xff"}[r.Intn(3)]
		}
		cur := ""
		switch r.Intn(4) {
		case 0:
			cur = g.key()
		case 1:
			c2 := g.key()
			cur = c2[:r.Intn(len(c2)+1)]
		case 2:
			cur = p + string(r.Bytes(r.Intn(2)))
		}
		limit, maxBytes, incl := uint64(r.Intn(4)), uint64(0), r.Bool()
		if r.Intn(3) == 0 {
			maxBytes = uint64(1 + r.Intn(24))
		}
		excl := map[string][]byte{}
		for i := r.Intn(3); i > 0; i-- {
			excl[g.key()] = nil
		}
		return c47QPfxc(p, cur, limit, maxBytes, incl, excl)
	case 14:
		i, ct := g.aidx(), r.Intn(2)
		return &c47Query{vL(vSym("qcreator"), i, ct), func(h *c47Handles) []interface{} {
			a, ok, rnd, err := h.aor.LookupCreator(basics.CreatableIndex(i), basics.CreatableType(ct))
			if err != nil {
				return c47Err(err)
			}
			return vL(uint64(rnd), ok, a[:])
		}}
	case 15:
		st := g.sh.stagingT && r.Intn(3) == 0
		return &c47Query{vL(vSym("qmeta"), st), func(h *c47Handles) []interface{} {
			rnd, err := h.ar.AccountsRound()
			if err != nil {
				return c47Err(err)
			}
			tot, err := h.ar.AccountsTotals(ctx, st)
			if err != nil {
				return c47Err(err)
			}
			p := int64(tot.RewardsLevel)
			if tot != (ledgercore.AccountTotals{RewardsLevel: tot.RewardsLevel}) {
				p = -1
			}
			return vL(uint64(rnd), p)
		}}
	case 16:
		a, i := g.addr(), g.aidx()
		return &c47Query{vL(vSym("qresdata"), a[:], i), func(h *c47Handles) []interface{} {
			ref, err := h.ar.LookupAccountRowID(a)
			if err != nil {
				if !errors.Is(err, trackerdb.ErrNotFound) {
					return c47Err(err)
				}
				ref = nil
			}
			data, err := h.ar.LookupResourceDataByAddrID(ref, basics.CreatableIndex(i))
			if err != nil {
				return vL(ref != nil, c47Err(err))
			}
			var rd trackerdb.ResourcesData
			if err = protocol.Decode(data, &rd); err != nil {
				return vL(ref != nil, vL(vSym("err"), vSym("decode")))
			}
			return vL(ref != nil, c47ResObs(rd))
		}}
	case 17:
		a := g.addr()
		return &c47Query{vL(vSym("qonldata"), a[:]), func(h *c47Handles) []interface{} {
			ref, data, err := h.ar.LookupOnlineAccountDataByAddress(a)
			if err != nil {
				return c47Err(err)
			}
			var d trackerdb.BaseOnlineAccountData
			if err = protocol.Decode(data, &d); err != nil {
				return vL(vSym("err"), vSym("decode"))
			}
			return vL(ref != nil, c47OnlObs(d))
		}}
	case 18, 19:
		rd, off, n := g.roundNear(), uint64(r.Intn(3)), uint64(r.Intn(5))
		if r.Intn(3) == 0 {
			n = 100
		}
		return c47QTop(rd, off, n)
	case 20:
		return &c47Query{vL(vSym("qorp")), func(h *c47Handles) []interface{} {
			ds, end, err := h.ar.AccountsOnlineRoundParams()
			if err != nil {
				return c47Err(err)
			}
			var l []interface{}
			for _, d := range ds {
				l = append(l, d.OnlineSupply)
			}
			return vL(l, uint64(end))
		}}
	case 21:
		rd, vr := g.roundNear(), uint64(r.Intn(800))
		return &c47Query{vL(vSym("qexp"), rd, vr), func(h *c47Handles) []interface{} {
			m, err := h.ar.ExpiredOnlineAccountsForRound(basics.Round(rd), basics.Round(vr), c47RewardUnit, 0)
			if err != nil {
				return c47Err(err)
			}
			var l []interface{}
			for _, a := range c47SortedAddrs(m) {
				oa := m[a]
				l = append(l, vL(a[:], oa.MicroAlgosWithRewards.Raw, uint64(oa.VoteLastValid)))
			}
			return vL(l)
		}}
	case 22:
		mx := uint64(r.Intn(4))
		return c47QOnlAll(mx)
	case 23:
		dbr := g.roundNear()
		var mx uint64
		for k := range g.sh.txtail {
			if k > mx {
				mx = k
			}
		}
		if r.Intn(3) != 0 {
			dbr = mx
		}
		return &c47Query{vL(vSym("qtxtail"), dbr), func(h *c47Handles) []interface{} {
			rds, hs, base, err := h.ar.LoadTxTail(ctx, basics.Round(dbr))
			if err != nil {
				return c47Err(err)
			}
			var l []interface{}
			for i, rd := range rds {
				p := int64(-1)
				if len(rd.LastValid) == 1 && len(hs) == len(rds) {
					p = int64(rd.LastValid[0])
					if enc := c47TxTail(uint64(p)); !bytes.Equal(enc, protocol.Encode(rd)) || hs[i] != crypto.Hash(enc) {
						p = -1
					}
				}
				l = append(l, p)
			}
			return vL(l, uint64(base))
		}}
	case 24, 25:
		a, rd := g.addr(), g.roundNear()
		return c47QOnline(a, rd)
	case 26:
		rd := g.roundNear()
		return &c47Query{vL(vSym("qorpr"), rd), func(h *c47Handles) []interface{} {
			d, err := h.oar.LookupOnlineRoundParams(basics.Round(rd))
			if err != nil {
				return c47Err(err)
			}
			return vL(d.OnlineSupply)
		}}
	case 27:
		a := g.addr()
		return c47QHist(a)
	case 28:
		if r.Bool() {
			rd := g.roundNear()
			return &c47Query{vL(vSym("qsp"), rd), func(h *c47Handles) []interface{} {
				vc, err := h.spr.LookupSPContext(basics.Round(rd))
				if err != nil {
					return c47Err(err)
				}
				return vL(uint64(vc.LastAttestedRound), vc.OnlineTotalWeight.Raw)
			}}
		}
		return &c47Query{vL(vSym("qspall")), func(h *c47Handles) []interface{} {
			vcs, err := h.spr.GetAllSPContexts(ctx)
			if err != nil {
				return c47Err(err)
			}
			var l []interface{}
			for _, vc := range vcs {
				l = append(l, vL(uint64(vc.LastAttestedRound), vc.OnlineTotalWeight.Raw))
			}
			return vL(l)
		}}
	default:
		// the parts of the interface that the key-value backend leaves as stubs / unimplemented
		which := r.Intn(8)
		names := []string{"accounts", "resources", "kvs", "onlinerows", "onlineroundparams", "addrfromid", "catchpointreader", "catchpointwriter"}
		a := g.addr()
		return &c47Query{vL(vSym("qstub"), vSym(names[which]), a[:]), func(h *c47Handles) (res []interface{}) {
			defer func() {
				if rec := recover(); rec != nil {
					res = vL(vSym("panic"))
				}
			}()
			var n uint64
			var err error
			switch which {
			case 0:
				n, err = h.ar.TotalAccounts(ctx)
			case 1:
				n, err = h.ar.TotalResources(ctx)
			case 2:
				n, err = h.ar.TotalKVs(ctx)
			case 3:
				n, err = h.ar.TotalOnlineAccountRows(ctx)
			case 4:
				n, err = h.ar.TotalOnlineRoundParams(ctx)
			case 5:
				ref, err2 := h.ar.LookupAccountRowID(a)
				if err2 != nil {
					return c47Err(err2)
				}
				got, err2 := h.ar.LookupAccountAddressFromAddressID(ctx, ref)
				if err2 != nil {
					return c47Err(err2)
				}
				return vL(got[:])
			case 6:
				cr, err2 := h.db.MakeCatchpointReader()
				if err2 != nil {
					return c47Err(err2)
				}
				v, err2 := cr.ReadCatchpointStateUint64(ctx, trackerdb.CatchpointStateCatchupBalancesRound)
				if err2 != nil {
					return c47Err(err2)
				}
				return vL(v)
			case 7:
				cw, err2 := h.db.MakeCatchpointWriter()
				if err2 != nil {
					return c47Err(err2)
				}
				return vL(cw != nil)
			}
			if err != nil {
				return c47Err(err)
			}
			return vL(n)
		}}
	}
}

func c47QPfx(p string, max uint64, prem map[string]bool, cnt uint64) *c47Query {
	var pks []string
	for pk := range prem {
		pks = append(pks, pk)
	}
	sort.Strings(pks)
	var pre []interface{}
	for _, pk := range pks {
		pre = append(pre, vL(pk, prem[pk]))
	}
	return &c47Query{vL(vSym("qpfx"), p, max, pre, cnt), func(h *c47Handles) []interface{} {
		res := map[string]bool{}
		for pk, f := range prem {
			res[pk] = f
		}
		rnd, err := h.aor.LookupKeysByPrefix(p, max, res, cnt)
		if err != nil {
			return c47Err(err)
		}
		var ks []string
		for k := range res {
			ks = append(ks, k)
		}
		sort.Strings(ks)
		var l []interface{}
		for _, k := range ks {
			l = append(l, vL(k, res[k]))
		}
		return vL(uint64(rnd), l)
	}}
}

func c47QPfxc(p, cur string, limit, maxBytes uint64, incl bool, excl map[string][]byte) *c47Query {
	var eks []string
	for ek := range excl {
		eks = append(eks, ek)
	}
	sort.Strings(eks)
	var exl []interface{}
	for _, ek := range eks {
		exl = append(exl, ek)
	}
	return &c47Query{vL(vSym("qpfxc"), p, cur, limit, maxBytes, incl, exl), func(h *c47Handles) []interface{} {
		rnd, res, more, err := h.aor.LookupKeysByPrefixCursor(p, cur, limit, maxBytes, incl, excl)
		if err != nil {
			return c47Err(err)
		}
		var l []interface{}
		for _, kv := range res {
			l = append(l, vL(kv.Key, kv.Value))
		}
		return vL(uint64(rnd), l, more)
	}}
}

func c47QTop(rd, off, n uint64) *c47Query {
	return &c47Query{vL(vSym("qtop"), rd, off, n), func(h *c47Handles) []interface{} {
		m, err := h.ar.AccountsOnlineTop(basics.Round(rd), off, n, c47RewardUnit)
		if err != nil {
			return c47Err(err)
		}
		var l []interface{}
		for _, a := range c47SortedAddrs(m) {
			oa := m[a]
			l = append(l, vL(a[:], oa.Address == a, oa.MicroAlgos.Raw, oa.NormalizedOnlineBalance, uint64(oa.VoteLastValid)))
		}
		return vL(l)
	}}
}

func c47QOnlAll(mx uint64) *c47Query {
	return &c47Query{vL(vSym("qonlall"), mx), func(h *c47Handles) []interface{} {
		ds, err := h.ar.OnlineAccountsAll(mx)
		if err != nil {
			return c47Err(err)
		}
		var l []interface{}
		for _, d := range ds {
			l = append(l, vL(d.Addr[:], uint64(d.UpdRound), uint64(d.Round), d.Ref != nil, c47OnlObs(d.AccountData)))
		}
		return vL(l)
	}}
}

func c47QOnline(a basics.Address, rd uint64) *c47Query {
	return &c47Query{vL(vSym("qonline"), a[:], rd), func(h *c47Handles) []interface{} {
		d, err := h.oar.LookupOnline(a, basics.Round(rd))
		if err != nil {
			return c47Err(err)
		}
		if d.Ref == nil {
			return vL(uint64(d.Round), d.Addr == a, false, uint64(d.UpdRound), d.AccountData == trackerdb.BaseOnlineAccountData{})
		}
		return vL(uint64(d.Round), d.Addr == a, true, uint64(d.UpdRound), c47OnlObs(d.AccountData))
	}}
}

func c47QHist(a basics.Address) *c47Query {
	return &c47Query{vL(vSym("qhist"), a[:]), func(h *c47Handles) []interface{} {
		ds, rnd, err := h.oar.LookupOnlineHistory(a)
		if err != nil {
			return c47Err(err)
		}
		var l []interface{}
		for _, d := range ds {
			l = append(l, vL(d.Addr == a, uint64(d.UpdRound), uint64(d.Round), d.Ref != nil, c47OnlObs(d.AccountData)))
		}
		return vL(uint64(rnd), l)
	}}
}

type c47Step struct {
	op *c47Op
	q  *c47Query
}

func c47Fill(b byte) (a basics.Address) {
	for i := range a {
		a[i] = b
	}
	return
}

func c47OpUk(k string, v []byte) c47Step {
	return c47Step{op: &c47Op{vL(vSym("uk"), k, v), func(h *c47Handles) error { return h.aow.UpsertKvPair(k, v) }}}
}

func c47OpIo(a basics.Address, upd uint64, o c47Onl) c47Step {
	d := c47OnlData(o)
	return c47Step{op: &c47Op{vL(vSym("io"), a[:], upd, o.normbal, o.votelast, o.algos), func(h *c47Handles) error {
		_, err := h.oaw.InsertOnlineAccount(a, o.normbal, d, upd, o.votelast)
		return err
	}}}
}

func c47OpOd(fb uint64) c47Step {
	return c47Step{op: &c47Op{vL(vSym("od"), fb), func(h *c47Handles) error { return h.aw.OnlineAccountsDelete(basics.Round(fb)) }}}
}

// the witness histories of C47_kv_prefix_scan_refuted / _prefix_flags_refuted, _lookup_online_wrap_refuted,
// _online_delete_refuted, _online_top_refuted, _recorded_findings_refuted
func c47Scripted() [][]c47Step {
	a1, a2 := c47Fill(1), c47Fill(2)
	onl := func(algos uint64) c47Onl { return c47Onl{normbal: algos, votelast: 1000, algos: algos} }
	return [][]c47Step{
		{
			c47OpUk("bx:aaa1", []byte{1}), c47OpUk("bx:aaa2", []byte{2}), c47OpUk("bx:abb3", []byte{}), c47OpUk("cz:zzz", []byte{4}),
			{q: c47QPfx("bx:a", 10, map[string]bool{}, 0)},
			{q: c47QPfx("bx:a", 10, map[string]bool{"bx:aaa1": false}, 0)},
			{q: c47QPfxc("bx:a", "", 0, 0, false, map[string][]byte{})},
			{q: c47QPfxc("bx:a", "bx:aaa1", 1, 0, true, map[string][]byte{})},
		},
		{
			c47OpIo(a1, 5, onl(10)), c47OpIo(a1, 255, onl(20)), c47OpIo(a1, 256, onl(30)),
			{q: c47QOnline(a1, 255)}, {q: c47QOnline(a1, 511)}, {q: c47QOnline(a1, 256)}, {q: c47QHist(a1)}, {q: c47QHist(a2)}, {q: c47QOnlAll(0)},
			c47OpOd(255),
			{q: c47QHist(a1)}, {q: c47QOnline(a1, 254)}, {q: c47QOnlAll(0)},
		},
		{
			c47OpIo(a1, 5, onl(10)), c47OpIo(a2, 3, onl(100)),
			{q: c47QTop(5, 0, 1)}, {q: c47QTop(5, 0, 10)},
		},
	}
}

func c47Open(t *testing.T, dir string) (*c47Handles, *c47Handles) {
	proto := config.Consensus[protocol.ConsensusCurrentVersion]
	s, _ := sqlitedriver.OpenForTesting(t, true)
	seedDb(t, s)
	p, err := pebbledbdriver.Open(dir, false, proto, logging.TestingLog(t))
	require.NoError(t, err)
	seedDb(t, p)
	return c47Handle(t, s), c47Handle(t, p)
}

func TestVerifC47(t *testing.T) {
	// two files, evaluated in this order: the readers both backends are meant to agree on first, the
	// readers with a recorded key-value deviation (qlimres qtop qonlall qhist qstub) last
	out := vOpen("cases_c47_a.txt")
	defer out.Close()
	outRec := vOpen("cases_c47_b_recorded.txt")
	defer outRec.Close()
	recorded := map[string]bool{"qlimres": true, "qtop": true, "qonlall": true, "qhist": true, "qstub": true}
	outRoot := os.Getenv("VERIF_OUT")
	if outRoot == "" {
		outRoot = t.TempDir()
	}
	tmp, err := os.MkdirTemp(outRoot, "c47pebble")
	require.NoError(t, err)
	defer os.RemoveAll(tmp)

	nHist := vEnvInt("VERIF_C47_HIST", 30)
	nBatch := vEnvInt("VERIF_C47_BATCH", 5)
	nQuery := vEnvInt("VERIF_C47_QUERY", 30)
	r := vNewRand(47)
	opKinds := map[string]int{}
	qKinds := map[string]int{}
	opErrs := 0
	lens := map[int]int{}
	emit := func(ops []interface{}, q *c47Query, hs, hk *c47Handles) {
		so, ko := q.run(hs), q.run(hk)
		kind := string(q.term[0].(vSym))
		if recorded[kind] {
			outRec.Case(append([]interface{}{}, ops...), q.term, so, ko)
		} else {
			out.Case(append([]interface{}{}, ops...), q.term, so, ko)
		}
		qKinds[kind]++
	}
	// scripted histories first: the witnesses of the ..._refuted theorems of coq/props/C47.v, replayed on the real code
	for si, sc := range c47Scripted() {
		hs, hk := c47Open(t, filepath.Join(tmp, fmt.Sprintf("s%d", si)))
		var ops []interface{}
		for _, step := range sc {
			if step.op != nil {
				es, ek := step.op.apply(hs), step.op.apply(hk)
				if es != nil || ek != nil {
					opErrs++
					t.Errorf("scripted write %v failed: sqlite=%v kv=%v", vT(step.op.term...), es, ek)
				}
				ops = append(ops, step.op.term)
			} else {
				emit(ops, step.q, hs, hk)
			}
		}
		hs.close()
		hk.close()
	}
	for hi := 0; hi < nHist; hi++ {
		g := c47NewGen(r)
		dir := filepath.Join(tmp, fmt.Sprintf("h%d", hi))
		hs, hk := c47Open(t, dir)
		var ops []interface{}
		for b := 0; b < nBatch; b++ {
			nops := 1 + r.Intn(8)
			if b == 0 && hi%5 == 0 {
				nops = 0 // queries on the freshly migrated stores
			}
			for i := 0; i < nops; i++ {
				op := g.op()
				es, ek := op.apply(hs), op.apply(hk)
				// a protocol-respecting write must succeed on both backends; record it otherwise
				t1 := op.term
				if es != nil || ek != nil {
					opErrs++
					t.Errorf("write %v failed: sqlite=%v kv=%v", vT(op.term...), es, ek)
				}
				ops = append(ops, t1)
				opKinds[string(op.term[0].(vSym))]++
			}
			for i := 0; i < nQuery; i++ {
				emit(ops, g.query(), hs, hk)
			}
			lens[len(ops)/10*10]++
		}
		hs.close()
		hk.close()
		os.RemoveAll(dir)
	}
	lensS := map[string]int{}
	for k, v := range lens {
		lensS[fmt.Sprintf("ops_%d_%d", k, k+9)] = v
	}
	vStats(map[string]interface{}{"histories": nHist, "batches_per_history": nBatch, "queries_per_batch": nQuery,
		"write_kinds": opKinds, "query_kinds": qKinds, "history_length_at_query": lensS, "write_errors": opErrs})
}
