//go:build verif

package trackerdb

// C15 harness: computes the REAL trie-leaf builders (AccountHashBuilderV6, ResourcesHashBuilderV6,
// KvHashBuilderV6), the real catchpoint label (ledgercore.MakeLabel over the V6/V7/Current label
// makers) and, for small states, the real merkletrie root over the real leaves, on pairs of
// inputs, and writes both inputs and both observations of every pair:
//
//   E ::= (acct #addr upd rb #enc) | (res #addr cidx isAsset isApp upd #enc) | (kv #key #value)
//   L ::= #leaf | (err)
//   I ::= (ver round #blockhash #root (onMon onRwd offMon offRwd npMon npRwd lvl) #totalsEnc #spver #onl #onlrp)
//   (leafpair tag E1 E2 L1 L2 same)   same: 1/0 Go-level equality of (address, index, data); 2 crafted bytes
//   (labelpair tag I1 I2 #label1 #label2)
//   (statepair tag (E..) (E..) (L..) (L..) I1 I2 #label1 #label2)
//
// Pair families: identical inputs, same address / different data (one field changed), adjacent
// addresses, adjacent and byte-shifted creatable ids, asset vs app under one (address, index),
// builder errors, boxes of one app with the name/value boundary shifted (the recorded finding),
// empty values, prefix-related keys, same name under adjacent apps, cross-class pairs whose
// pre-images coincide byte for byte (only the HashKind byte separates them), independent random
// pairs; label inputs differing in exactly one component (incl. msgpack width boundaries of the
// totals); small states differing in one entry.

import (
	"encoding/binary"
	"reflect"
	"testing"

	"github.com/algorand/avm-abi/apps"
	"github.com/algorand/go-algorand/crypto"
	"github.com/algorand/go-algorand/crypto/merkletrie"
	"github.com/algorand/go-algorand/data/basics"
	"github.com/algorand/go-algorand/ledger/ledgercore"
	"github.com/algorand/go-algorand/logging"
	"github.com/algorand/go-algorand/protocol"
)

// ---------- entries ----------

type vC15Entry struct {
	class byte // 'a', 'r', 'k'
	addr  basics.Address
	ad    BaseAccountData
	cidx  basics.CreatableIndex
	rd    ResourcesData
	upd   uint64 // resources: the updateRound argument (callers pass rd.UpdateRound)
	enc   []byte // encoded data handed to the builder
	key   string
	value []byte
}

func vC15Acct(addr basics.Address, ad BaseAccountData) vC15Entry {
	return vC15Entry{class: 'a', addr: addr, ad: ad, enc: protocol.Encode(&ad)}
}

func vC15Res(addr basics.Address, cidx basics.CreatableIndex, rd ResourcesData) vC15Entry {
	return vC15Entry{class: 'r', addr: addr, cidx: cidx, rd: rd, upd: rd.UpdateRound, enc: protocol.Encode(&rd)}
}

func vC15Kv(key string, value []byte) vC15Entry {
	if value == nil {
		value = []byte{}
	}
	return vC15Entry{class: 'k', key: key, value: value}
}

func (e *vC15Entry) term() []interface{} {
	switch e.class {
	case 'a':
		return vL(vSym("acct"), e.addr[:], e.ad.UpdateRound, e.ad.RewardsBase, e.enc)
	case 'r':
		return vL(vSym("res"), e.addr[:], uint64(e.cidx), e.rd.IsAsset(), e.rd.IsApp(), e.upd, e.enc)
	default:
		return vL(vSym("kv"), e.key, e.value)
	}
}

// the real builders
func (e *vC15Entry) leaf() (leaf []byte, obs interface{}) {
	switch e.class {
	case 'a':
		leaf = AccountHashBuilderV6(e.addr, &e.ad, e.enc)
	case 'r':
		l, err := ResourcesHashBuilderV6(&e.rd, e.addr, e.cidx, e.upd, e.enc)
		if err != nil {
			return nil, vL(vSym("err"))
		}
		leaf = l
	default:
		leaf = KvHashBuilderV6(e.key, e.value)
	}
	return leaf, leaf
}

// Go-level equality of (address, index, data), independent of any encoding
func vC15Same(a, b *vC15Entry) int {
	if a.class != b.class {
		return 0
	}
	ok := false
	switch a.class {
	case 'a':
		ok = a.addr == b.addr && a.ad == b.ad
	case 'r':
		ok = a.addr == b.addr && a.cidx == b.cidx && reflect.DeepEqual(a.rd, b.rd)
	default:
		ok = a.key == b.key && string(a.value) == string(b.value)
	}
	if ok {
		return 1
	}
	return 0
}

// ---------- generators ----------

func vC15Addr(r *vRand) (a basics.Address) {
	switch r.Intn(8) {
	case 0: // small structured addresses (many shared bytes)
		a[31] = byte(r.Intn(3))
	case 1:
		a[0] = byte(r.Intn(3))
	default:
		copy(a[:], r.Bytes(32))
	}
	return
}

func vC15U(r *vRand) uint64 {
	if r.Intn(3) == 0 {
		return 0
	}
	return r.Edge64()
}

func vC15AcctData(r *vRand) BaseAccountData {
	var d BaseAccountData
	d.Status = basics.Status(r.Intn(3))
	d.MicroAlgos.Raw = r.Edge64()
	d.RewardsBase = vC15U(r)
	d.RewardedMicroAlgos.Raw = vC15U(r)
	if r.Intn(4) == 0 {
		d.AuthAddr = vC15Addr(r)
	}
	if r.Intn(2) == 0 {
		d.TotalAppSchemaNumUint = vC15U(r)
		d.TotalAppSchemaNumByteSlice = vC15U(r)
		d.TotalExtraAppPages = uint32(r.Intn(5))
		d.TotalAssetParams = vC15U(r)
		d.TotalAssets = vC15U(r)
		d.TotalAppParams = vC15U(r)
		d.TotalAppLocalStates = vC15U(r)
		d.TotalBoxes = vC15U(r)
		d.TotalBoxBytes = vC15U(r)
	}
	if r.Intn(3) == 0 {
		d.IncentiveEligible = r.Bool()
		d.LastProposed = basics.Round(vC15U(r))
		d.LastHeartbeat = basics.Round(vC15U(r))
	}
	if r.Intn(3) == 0 {
		copy(d.VoteID[:], r.Bytes(32))
		copy(d.SelectionID[:], r.Bytes(32))
		copy(d.StateProofID[:], r.Bytes(64))
		d.VoteFirstValid = basics.Round(vC15U(r))
		d.VoteLastValid = basics.Round(vC15U(r))
		d.VoteKeyDilution = vC15U(r)
	}
	d.UpdateRound = vC15U(r)
	return d
}

// change exactly one field
func vC15MutAcct(r *vRand, d BaseAccountData) BaseAccountData {
	switch r.Intn(12) {
	case 0:
		d.Status = (d.Status + 1) % 3
	case 1:
		d.MicroAlgos.Raw++
	case 2:
		d.RewardsBase ^= 1 << uint(r.Intn(64))
	case 3:
		d.RewardedMicroAlgos.Raw ^= 1 << uint(r.Intn(64))
	case 4:
		d.AuthAddr[r.Intn(32)] ^= 1 << uint(r.Intn(8))
	case 5:
		d.TotalBoxes++
	case 6:
		d.TotalBoxBytes ^= 1 << uint(r.Intn(64))
	case 7:
		d.IncentiveEligible = !d.IncentiveEligible
	case 8:
		d.VoteID[r.Intn(32)] ^= 1 << uint(r.Intn(8))
	case 9:
		d.UpdateRound ^= 1 << uint(r.Intn(64))
	case 10:
		d.TotalAssets, d.TotalAssetParams = d.TotalAssetParams, d.TotalAssets+1
	default:
		d.LastHeartbeat++
	}
	return d
}

func vC15Str(r *vRand, max int) string {
	n := r.Intn(max + 1)
	b := make([]byte, n)
	for i := range b {
		b[i] = byte('a' + r.Intn(4))
	}
	return string(b)
}

func vC15Tkv(r *vRand) basics.TealKeyValue {
	n := r.Intn(4)
	if n == 0 {
		return nil
	}
	m := basics.TealKeyValue{}
	for i := 0; i < n; i++ {
		if r.Bool() {
			m[vC15Str(r, 3)] = basics.TealValue{Type: basics.TealUintType, Uint: r.Edge64()}
		} else {
			m[vC15Str(r, 3)] = basics.TealValue{Type: basics.TealBytesType, Bytes: vC15Str(r, 4)}
		}
	}
	return m
}

func vC15Prog(r *vRand) []byte {
	n := r.Intn(6)
	if n == 0 {
		return nil
	}
	return r.Bytes(n)
}

// kind: 0 asset holding, 1 asset params(+holding?), 2 app local state, 3 app params(+local?), 4 raw random
func vC15ResData(r *vRand, kind int) ResourcesData {
	rd := MakeResourcesData(vC15U(r))
	switch kind {
	case 0:
		rd.SetAssetHolding(basics.AssetHolding{Amount: vC15U(r), Frozen: r.Intn(4) == 0})
	case 1:
		hold := r.Bool()
		if hold {
			rd.SetAssetHolding(basics.AssetHolding{Amount: vC15U(r), Frozen: r.Bool()})
		}
		ap := basics.AssetParams{Total: vC15U(r), Decimals: uint32(r.Intn(20)), DefaultFrozen: r.Bool(),
			UnitName: vC15Str(r, 4), AssetName: vC15Str(r, 6), URL: vC15Str(r, 5)}
		if r.Bool() {
			ap.Manager = vC15Addr(r)
			ap.Reserve = vC15Addr(r)
		}
		if r.Intn(3) == 0 {
			copy(ap.MetadataHash[:], r.Bytes(32))
		}
		rd.SetAssetParams(ap, hold)
	case 2:
		rd.SetAppLocalState(basics.AppLocalState{Schema: basics.StateSchema{NumUint: vC15U(r), NumByteSlice: vC15U(r)}, KeyValue: vC15Tkv(r)})
	case 3:
		hold := r.Bool()
		if hold {
			rd.SetAppLocalState(basics.AppLocalState{Schema: basics.StateSchema{NumUint: vC15U(r)}, KeyValue: vC15Tkv(r)})
		}
		ap := basics.AppParams{ApprovalProgram: vC15Prog(r), ClearStateProgram: vC15Prog(r), GlobalState: vC15Tkv(r),
			ExtraProgramPages: uint32(r.Intn(4)), Version: vC15U(r)}
		ap.LocalStateSchema.NumUint = vC15U(r)
		ap.GlobalStateSchema.NumByteSlice = vC15U(r)
		rd.SetAppParams(ap, hold)
	default:
		rd.ResourceFlags = ResourceFlags(r.Intn(16))
		if r.Bool() {
			rd.Amount = vC15U(r)
		}
		if r.Bool() {
			rd.SchemaNumUint = vC15U(r)
		}
		if r.Intn(3) == 0 {
			rd.Total = vC15U(r)
			rd.ApprovalProgram = vC15Prog(r)
		}
	}
	return rd
}

func vC15MutRes(r *vRand, rd ResourcesData) ResourcesData {
	switch r.Intn(8) {
	case 0:
		rd.Amount++
	case 1:
		rd.Frozen = !rd.Frozen
	case 2:
		rd.Total ^= 1 << uint(r.Intn(64))
	case 3:
		rd.UnitName += "a"
	case 4:
		rd.SchemaNumUint++
	case 5:
		rd.ApprovalProgram = append(append([]byte{}, rd.ApprovalProgram...), byte(r.Intn(256)))
	case 6:
		rd.UpdateRound ^= 1 << uint(r.Intn(64))
	default:
		rd.Version++
	}
	return rd
}

func vC15Name(r *vRand) string {
	switch r.Intn(4) {
	case 0:
		return vC15Str(r, 3)
	case 1:
		return string(r.Bytes(1 + r.Intn(8)))
	default:
		return vC15Str(r, 8)
	}
}

// ---------- leaf pairs ----------

type vC15Out struct {
	out  *vOut
	tags map[string]int
}

func (o *vC15Out) leafpair(tag string, a, b vC15Entry, same int) {
	_, oa := a.leaf()
	_, ob := b.leaf()
	o.out.Case(vSym("leafpair"), vSym(tag), a.term(), b.term(), oa, ob, same)
	o.tags[tag]++
}

func (o *vC15Out) honest(tag string, a, b vC15Entry) { o.leafpair(tag, a, b, vC15Same(&a, &b)) }

func vC15LeafPairs(o *vC15Out, r *vRand, n int) {
	// the recorded witness first: boxes ("ab","c") and ("a","bc") of app 7
	o.honest("kv_shift", vC15Kv(apps.MakeBoxKey(7, "ab"), []byte("c")), vC15Kv(apps.MakeBoxKey(7, "a"), []byte("bc")))
	// a resource that is neither asset nor app: builder error
	o.honest("res_err", vC15Res(vC15Addr(r), 5, MakeResourcesData(3)), vC15Res(vC15Addr(r), 5, MakeResourcesData(0)))
	for i := 0; i < n; i++ {
		switch r.Intn(24) {
		case 0:
			a := vC15Acct(vC15Addr(r), vC15AcctData(r))
			o.honest("acct_same", a, vC15Acct(a.addr, a.ad))
		case 1, 2:
			a := vC15Acct(vC15Addr(r), vC15AcctData(r))
			o.honest("acct_diff_data", a, vC15Acct(a.addr, vC15MutAcct(r, a.ad)))
		case 3:
			a := vC15Acct(vC15Addr(r), vC15AcctData(r))
			b := a.addr
			b[r.Intn(32)] ^= 1 << uint(r.Intn(8))
			o.honest("acct_adj_addr", a, vC15Acct(b, a.ad))
		case 4:
			o.honest("acct_rand", vC15Acct(vC15Addr(r), vC15AcctData(r)), vC15Acct(vC15Addr(r), vC15AcctData(r)))
		case 5:
			// UpdateRound == 0: the affinity prefix falls back to RewardsBase
			d := vC15AcctData(r)
			d.UpdateRound = 0
			d2 := d
			d2.UpdateRound = d.RewardsBase
			a := vC15Acct(vC15Addr(r), d)
			o.honest("acct_upd_zero", a, vC15Acct(a.addr, d2))
		case 6:
			a := vC15Res(vC15Addr(r), basics.CreatableIndex(r.Edge64()), vC15ResData(r, r.Intn(5)))
			o.honest("res_same", a, vC15Res(a.addr, a.cidx, a.rd))
		case 7, 8:
			a := vC15Res(vC15Addr(r), basics.CreatableIndex(r.Edge64()), vC15ResData(r, r.Intn(4)))
			c := a.cidx + 1
			switch r.Intn(4) {
			case 0:
				c = a.cidx << 8
			case 1:
				c = a.cidx ^ (1 << uint(r.Intn(64)))
			case 2:
				c = basics.CreatableIndex(binary.BigEndian.Uint64(binary.LittleEndian.AppendUint64(nil, uint64(a.cidx)))) // byte-reversed
			}
			o.honest("res_adj_cidx", a, vC15Res(a.addr, c, a.rd))
		case 9:
			a := vC15Res(vC15Addr(r), basics.CreatableIndex(r.Edge64()), vC15ResData(r, r.Intn(4)))
			o.honest("res_diff_data", a, vC15Res(a.addr, a.cidx, vC15MutRes(r, a.rd)))
		case 10:
			a := vC15Res(vC15Addr(r), basics.CreatableIndex(r.Edge64()), vC15ResData(r, r.Intn(4)))
			b := a.addr
			b[r.Intn(32)] ^= 1 << uint(r.Intn(8))
			o.honest("res_adj_addr", a, vC15Res(b, a.cidx, a.rd))
		case 11:
			// asset vs app under the same (address, index)
			addr, c := vC15Addr(r), basics.CreatableIndex(r.Edge64())
			o.honest("res_asset_vs_app", vC15Res(addr, c, vC15ResData(r, r.Intn(2))), vC15Res(addr, c, vC15ResData(r, 2+r.Intn(2))))
		case 12:
			o.honest("res_rand", vC15Res(vC15Addr(r), basics.CreatableIndex(r.Edge64()), vC15ResData(r, r.Intn(5))),
				vC15Res(vC15Addr(r), basics.CreatableIndex(r.Edge64()), vC15ResData(r, r.Intn(5))))
		case 13:
			// crafted: asset-kind and app-kind resource handed the SAME encoded bytes
			addr, c := vC15Addr(r), basics.CreatableIndex(r.Edge64())
			a := vC15Res(addr, c, vC15ResData(r, 0))
			b := vC15Res(addr, c, vC15ResData(r, 2))
			if a.rd.IsAsset() && !b.rd.IsAsset() && b.rd.IsApp() {
				b.enc, b.upd = a.enc, a.upd
				o.leafpair("x_asset_app_same_bytes", a, b, 2)
			}
		case 14:
			// crafted: account whose encoded data starts with LE64(cidx) vs the resource (addr, cidx)
			b := vC15Res(vC15Addr(r), basics.CreatableIndex(r.Edge64()), vC15ResData(r, r.Intn(4)))
			a := vC15Entry{class: 'a', addr: b.addr}
			a.ad.UpdateRound = b.upd
			a.ad.RewardsBase = b.upd
			a.enc = append(binary.LittleEndian.AppendUint64(nil, uint64(b.cidx)), b.enc...)
			o.leafpair("x_acct_res_same_preimage", a, b, 2)
		case 15:
			// crafted: KV entry (key = address, value = encoded account) vs that account, affinity 0
			d := vC15AcctData(r)
			d.UpdateRound, d.RewardsBase = 0, 0
			a := vC15Acct(vC15Addr(r), d)
			o.leafpair("x_kv_acct_same_preimage", a, vC15Kv(string(a.addr[:]), a.enc), 2)
		case 16:
			// crafted: KV entry vs resource with affinity 0
			rd := vC15ResData(r, r.Intn(4))
			rd.UpdateRound = 0
			b := vC15Res(vC15Addr(r), basics.CreatableIndex(r.Edge64()), rd)
			key := string(append(append([]byte{}, b.addr[:]...), binary.LittleEndian.AppendUint64(nil, uint64(b.cidx))...))
			o.leafpair("x_kv_res_same_preimage", vC15Kv(key, b.enc), b, 2)
		case 17, 18:
			// boxes of one app, name/value boundary shifted by k bytes (the finding's signature)
			app := r.Edge64()
			name, val := vC15Name(r), r.Bytes(r.Intn(6))
			if r.Bool() {
				val = []byte(vC15Str(r, 5))
			}
			k := 1 + r.Intn(3)
			if len(name) < k {
				name += "xyz"
			}
			a := vC15Kv(apps.MakeBoxKey(app, name), val)
			b := vC15Kv(apps.MakeBoxKey(app, name[:len(name)-k]), append([]byte(name[len(name)-k:]), val...))
			if len(val) == 0 {
				o.honest("kv_shift_empty_value", a, b)
			} else {
				o.honest("kv_shift", a, b)
			}
		case 19:
			// prefix-related names, values chosen so that the concatenations differ
			app := r.Edge64()
			name := vC15Name(r)
			a := vC15Kv(apps.MakeBoxKey(app, name), []byte(vC15Str(r, 3)))
			b := vC15Kv(apps.MakeBoxKey(app, name+vC15Str(r, 2)+"q"), []byte(vC15Str(r, 3)))
			o.honest("kv_prefix", a, b)
		case 20:
			// same name, adjacent app ids / same key, different value
			app, name, val := r.Edge64(), vC15Name(r), r.Bytes(r.Intn(5))
			a := vC15Kv(apps.MakeBoxKey(app, name), val)
			if r.Bool() {
				o.honest("kv_adj_app", a, vC15Kv(apps.MakeBoxKey(app+1, name), val))
			} else {
				o.honest("kv_diff_value", a, vC15Kv(a.key, append(append([]byte{}, val...), byte(r.Intn(256)))))
			}
		case 21:
			a := vC15Kv(apps.MakeBoxKey(r.Edge64(), vC15Name(r)), r.Bytes(r.Intn(5)))
			o.honest("kv_same", a, vC15Kv(a.key, append([]byte{}, a.value...)))
		case 22:
			// raw (non-box) keys incl. empty key / empty value
			o.honest("kv_raw", vC15Kv(vC15Str(r, 3), []byte(vC15Str(r, 3))), vC15Kv(vC15Str(r, 3), []byte(vC15Str(r, 3))))
		default:
			o.honest("kv_rand", vC15Kv(apps.MakeBoxKey(r.Edge64(), vC15Name(r)), r.Bytes(r.Intn(40))),
				vC15Kv(apps.MakeBoxKey(r.Edge64(), vC15Name(r)), r.Bytes(r.Intn(40))))
		}
	}
}

// ---------- labels ----------

type vC15Label struct {
	ver              int
	round            basics.Round
	bh, root         crypto.Digest
	tot              ledgercore.AccountTotals
	spver, onl, onrp crypto.Digest
}

func (l *vC15Label) term() []interface{} {
	t := l.tot
	return vL(l.ver, uint64(l.round), l.bh[:], l.root[:],
		vL(t.Online.Money.Raw, t.Online.RewardUnits, t.Offline.Money.Raw, t.Offline.RewardUnits,
			t.NotParticipating.Money.Raw, t.NotParticipating.RewardUnits, t.RewardsLevel),
		protocol.EncodeReflect(&t), l.spver[:], l.onl[:], l.onrp[:])
}

// the real label
func (l *vC15Label) label() string {
	var m ledgercore.CatchpointLabelMaker
	switch l.ver {
	case 6:
		m = ledgercore.MakeCatchpointLabelMakerV6(l.round, &l.bh, &l.root, l.tot)
	case 7:
		m = ledgercore.MakeCatchpointLabelMakerV7(l.round, &l.bh, &l.root, l.tot, &l.spver)
	default:
		m = ledgercore.MakeCatchpointLabelMakerCurrent(l.round, &l.bh, &l.root, l.tot, &l.spver, &l.onl, &l.onrp)
	}
	return ledgercore.MakeLabel(m)
}

var vC15Widths = []uint64{0, 1, 127, 128, 255, 256, 65535, 65536, 1<<32 - 1, 1 << 32, 1<<64 - 1}

func vC15W(r *vRand) uint64 {
	if r.Bool() {
		return vC15Widths[r.Intn(len(vC15Widths))]
	}
	return vC15U(r)
}

func vC15Digest(r *vRand) (d crypto.Digest) {
	if r.Intn(6) != 0 {
		copy(d[:], r.Bytes(32))
	}
	return
}

func vC15GenLabel(r *vRand) vC15Label {
	l := vC15Label{ver: 6 + r.Intn(3), round: basics.Round(r.Edge64()), bh: vC15Digest(r), root: vC15Digest(r),
		spver: vC15Digest(r), onl: vC15Digest(r), onrp: vC15Digest(r)}
	l.tot.Online = ledgercore.AlgoCount{Money: basics.MicroAlgos{Raw: vC15W(r)}, RewardUnits: vC15W(r)}
	l.tot.Offline = ledgercore.AlgoCount{Money: basics.MicroAlgos{Raw: vC15W(r)}, RewardUnits: vC15W(r)}
	l.tot.NotParticipating = ledgercore.AlgoCount{Money: basics.MicroAlgos{Raw: vC15W(r)}, RewardUnits: vC15W(r)}
	l.tot.RewardsLevel = vC15W(r)
	return l
}

func vC15Flip(r *vRand, d *crypto.Digest) { d[r.Intn(32)] ^= 1 << uint(r.Intn(8)) }

func vC15LabelPairs(o *vC15Out, r *vRand, n int) {
	for i := 0; i < n; i++ {
		a := vC15GenLabel(r)
		b := a
		tag := "label_same"
		switch r.Intn(16) {
		case 0:
		case 1:
			b.round++
			tag = "label_round"
		case 2:
			vC15Flip(r, &b.bh)
			tag = "label_blockhash"
		case 3:
			vC15Flip(r, &b.root)
			tag = "label_root"
		case 4:
			// block hash and root exchanged
			b.bh, b.root = a.root, a.bh
			tag = "label_swap_bh_root"
		case 5:
			b.tot.Online.Money.Raw = vC15W(r)
			tag = "label_tot_online"
		case 6:
			// money and reward units exchanged / moved between classes
			b.tot.Offline.Money.Raw, b.tot.Offline.RewardUnits = a.tot.Offline.RewardUnits, a.tot.Offline.Money.Raw
			tag = "label_tot_swap_fields"
		case 7:
			b.tot.Online, b.tot.NotParticipating = a.tot.NotParticipating, a.tot.Online
			tag = "label_tot_swap_classes"
		case 8:
			b.tot.RewardsLevel = vC15W(r)
			tag = "label_tot_level"
		case 9:
			vC15Flip(r, &b.spver)
			tag = "label_spver" // ignored by V6 labels
		case 10:
			vC15Flip(r, &b.onl)
			tag = "label_onlineaccts" // ignored by V6/V7 labels
		case 11:
			b.onl, b.onrp = a.onrp, a.onl
			tag = "label_swap_online_hashes"
		case 12:
			b.ver = 6 + (a.ver-6+1+r.Intn(2))%3
			tag = "label_version"
		case 13:
			b.tot.NotParticipating.RewardUnits ^= 1 << uint(r.Intn(64))
			tag = "label_tot_notpart"
		default:
			b = vC15GenLabel(r)
			tag = "label_rand"
		}
		o.out.Case(vSym("labelpair"), vSym(tag), a.term(), b.term(), a.label(), b.label())
		o.tags[tag]++
	}
}

// ---------- small states: real leaves -> real trie -> real label ----------

type vC15State struct {
	entries []vC15Entry
}

func (s *vC15State) terms() (es, ls []interface{}, leaves [][]byte) {
	es, ls = vL(), vL()
	for i := range s.entries {
		l, obs := s.entries[i].leaf()
		es = append(es, s.entries[i].term())
		ls = append(ls, obs)
		if l != nil {
			leaves = append(leaves, l)
		}
	}
	return
}

func vC15Root(t *testing.T, leaves [][]byte) crypto.Digest {
	trie, err := merkletrie.MakeTrie(nil, TrieMemoryConfig)
	if err != nil {
		t.Fatal(err)
	}
	for _, l := range leaves {
		if _, err := trie.Add(l); err != nil { // a duplicate leaf is reported by (false, nil), as in accountsUpdateBalances
			t.Fatal(err)
		}
	}
	root, err := trie.RootHash()
	if err != nil {
		t.Fatal(err)
	}
	return root
}

// an application account with its boxes (TotalBoxes / TotalBoxBytes as the evaluator maintains
// them: bytes = len(name) + len(value) per box), plus a few unrelated accounts and resources
func vC15GenState(r *vRand, app uint64, creator basics.Address, boxes [][2]string, extra []vC15Entry) vC15State {
	var s vC15State
	d := BaseAccountData{MicroAlgos: basics.MicroAlgos{Raw: 1000000}, TotalAppParams: 1, UpdateRound: 9}
	for _, b := range boxes {
		d.TotalBoxes++
		d.TotalBoxBytes += uint64(len(b[0]) + len(b[1]))
	}
	s.entries = append(s.entries, vC15Acct(basics.AppIndex(app).Address(), d))
	rd := MakeResourcesData(9)
	rd.SetAppParams(basics.AppParams{ApprovalProgram: []byte{10, 129, 1}, ClearStateProgram: []byte{10, 129, 1}}, false)
	s.entries = append(s.entries, vC15Res(creator, basics.CreatableIndex(app), rd))
	for _, b := range boxes {
		s.entries = append(s.entries, vC15Kv(apps.MakeBoxKey(app, b[0]), []byte(b[1])))
	}
	s.entries = append(s.entries, extra...)
	return s
}

func vC15StatePairs(t *testing.T, o *vC15Out, r *vRand, n int) {
	for i := 0; i < n; i++ {
		app := uint64(1 + r.Intn(1000))
		creator := vC15Addr(r)
		var boxes [][2]string
		for j, nb := 0, 1+r.Intn(3); j < nb; j++ {
			boxes = append(boxes, [2]string{"n" + string(rune('0'+j)) + vC15Str(r, 3), vC15Str(r, 4)})
		}
		var extra []vC15Entry
		for j, ne := 0, r.Intn(3); j < ne; j++ {
			if r.Bool() {
				extra = append(extra, vC15Acct(vC15Addr(r), vC15AcctData(r)))
			} else {
				extra = append(extra, vC15Res(vC15Addr(r), basics.CreatableIndex(r.Edge64()), vC15ResData(r, r.Intn(4))))
			}
		}
		boxes2 := append([][2]string{}, boxes...)
		extra2 := append([]vC15Entry{}, extra...)
		tag := "state_same_permuted"
		if i == 0 {
			// the recorded witness at label level
			boxes, boxes2, extra, extra2 = [][2]string{{"ab", "c"}}, [][2]string{{"a", "bc"}}, nil, nil
			tag = "state_kv_shift"
		} else {
			switch r.Intn(8) {
			case 0:
			case 1:
				// shift the name/value boundary of one box: totals of the app account are unchanged
				j := r.Intn(len(boxes2))
				b := boxes2[j]
				boxes2[j] = [2]string{b[0][:len(b[0])-1], b[0][len(b[0])-1:] + b[1]}
				tag = "state_kv_shift"
			case 2:
				j := r.Intn(len(boxes2))
				boxes2[j][1] += "z"
				tag = "state_box_value"
			case 3:
				boxes2 = append(boxes2, [2]string{"new", vC15Str(r, 3)})
				tag = "state_box_added"
			case 4:
				j := r.Intn(len(boxes2))
				boxes2[j][0] += "_"
				tag = "state_box_renamed"
			case 5:
				extra2 = append(extra2, vC15Acct(vC15Addr(r), vC15AcctData(r)))
				tag = "state_acct_added"
			case 6:
				if len(extra2) > 0 {
					j := r.Intn(len(extra2))
					if extra2[j].class == 'a' {
						extra2[j] = vC15Acct(extra2[j].addr, vC15MutAcct(r, extra2[j].ad))
					} else {
						extra2[j] = vC15Res(extra2[j].addr, extra2[j].cidx+1, extra2[j].rd)
					}
					tag = "state_entry_changed"
				}
			default:
				if len(extra2) > 0 {
					extra2 = extra2[1:]
					tag = "state_entry_removed"
				}
			}
		}
		s1 := vC15GenState(r, app, creator, boxes, extra)
		s2 := vC15GenState(r, app, creator, boxes2, extra2)
		// second state in a different insertion order
		for j := len(s2.entries) - 1; j > 0; j-- {
			k := r.Intn(j + 1)
			s2.entries[j], s2.entries[k] = s2.entries[k], s2.entries[j]
		}
		e1, l1, lv1 := s1.terms()
		e2, l2, lv2 := s2.terms()
		la := vC15GenLabel(r)
		lb := la
		la.root, lb.root = vC15Root(t, lv1), vC15Root(t, lv2)
		o.out.Case(vSym("statepair"), vSym(tag), e1, e2, l1, l2, la.term(), lb.term(), la.label(), lb.label())
		o.tags[tag]++
	}
}

func TestVerifC15(t *testing.T) {
	logging.Base().SetLevel(logging.Error)
	o := &vC15Out{out: vOpen("cases_c15.txt"), tags: map[string]int{}}
	nLeaf := vEnvInt("VERIF_C15_LEAF", 2500)
	nLabel := vEnvInt("VERIF_C15_LABEL", 500)
	nState := vEnvInt("VERIF_C15_STATE", 200)
	vC15LeafPairs(o, vNewRand(0xC15), nLeaf)
	vC15LabelPairs(o, vNewRand(0xC15+1), nLabel)
	vC15StatePairs(t, o, vNewRand(0xC15+2), nState)
	o.out.Close()
	st := map[string]interface{}{"cases": o.out.n, "pairs_by_family": o.tags}
	vStats(st)
}
