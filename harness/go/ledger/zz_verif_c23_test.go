//go:build verif

package ledger

// C23 harness (package ledger): a fixed interpreter program, assembled by the real assembler,
// decodes its application arguments as a list of storage operations (box_create / box_resize /
// box_replace / box_put / box_del / app_global_put / app_global_del / app_local_put /
// app_local_del / reject / err), so that the same operation list drives the Coq model and the
// real AVM + evaluator + ledger.  Every call is one transaction through a real BlockEvaluator
// (generate mode), 1..4 calls per block; every block is validated (Ledger.Validate, eval in
// validate mode) and added to a real Ledger; after each block the application account's
// TotalBoxes / TotalBoxBytes, the box listing (LookupKeysByPrefix + LookupKv), the global state
// and schema, and every account's local state and schema are read back through the ledger.

import (
	"encoding/binary"
	"sort"
	"strings"
	"testing"
	"time"

	"github.com/algorand/avm-abi/apps"
	"github.com/stretchr/testify/require"

	"github.com/algorand/go-algorand/config"
	"github.com/algorand/go-algorand/data/basics"
	"github.com/algorand/go-algorand/data/transactions"
	"github.com/algorand/go-algorand/data/txntest"
	ledgertesting "github.com/algorand/go-algorand/ledger/testing"
	"github.com/algorand/go-algorand/protocol"
)

// one application argument = one operation:
//   byte 0: opcode, byte 1: n = length of the name / key, bytes 2..2+n: name / key, rest: operands
// scratch 0: argument index, 1: argument, 2: n, 3: name, 4: rest
const vc23Interpreter = `#pragma version 10
txn ApplicationID
bz approve
int 0
store 0
loop:
load 0
txn NumAppArgs
<
bz approve
load 0
txnas ApplicationArgs
store 1
load 1
int 1
getbyte
store 2
load 1
int 2
load 2
extract3
store 3
load 1
load 2
int 2
+
dup
load 1
len
swap
-
extract3
store 4
load 1
int 0
getbyte
switch bad op1 op2 op3 op4 op5 op6 op7 op8 op9 op10 bad
bad:
err
op1:
load 3
load 4
btoi
box_create
itob
extract 7 1
log
b next
op2:
load 3
load 4
btoi
box_resize
b next
op3:
load 3
load 4
extract 0 8
btoi
load 4
extract 8 0
box_replace
b next
op4:
load 3
load 4
box_put
b next
op5:
load 3
box_del
itob
extract 7 1
log
b next
op6:
load 3
load 4
extract 1 0
load 4
int 0
getbyte
int 1
==
bz op6b
btoi
op6b:
app_global_put
b next
op7:
load 3
app_global_del
b next
op8:
load 4
int 0
getbyte
load 3
load 4
extract 2 0
load 4
int 1
getbyte
int 1
==
bz op8b
btoi
op8b:
app_local_put
b next
op9:
load 4
int 0
getbyte
load 3
app_local_del
b next
op10:
int 0
return
next:
load 0
int 1
+
store 0
b loop
approve:
int 1
return
`

type vc23Sop struct {
	kind  string
	name  []byte // box name or key
	size  uint64 // size / start
	data  []byte
	acct  uint64
	isU   bool
	u     uint64
	bytes []byte
}

func vc23U64(x uint64) []byte {
	b := make([]byte, 8)
	binary.BigEndian.PutUint64(b, x)
	return b
}

func (o vc23Sop) arg() []byte {
	hdr := func(code byte) []byte { return append([]byte{code, byte(len(o.name))}, o.name...) }
	val := func() []byte {
		if o.isU {
			return append([]byte{1}, vc23U64(o.u)...)
		}
		return append([]byte{2}, o.bytes...)
	}
	switch o.kind {
	case "bc":
		return append(hdr(1), vc23U64(o.size)...)
	case "br":
		return append(hdr(2), vc23U64(o.size)...)
	case "bp":
		return append(append(hdr(3), vc23U64(o.size)...), o.data...)
	case "bput":
		return append(hdr(4), o.data...)
	case "bd":
		return hdr(5)
	case "gp":
		return append(hdr(6), val()...)
	case "gd":
		return hdr(7)
	case "lp":
		return append(append(hdr(8), byte(o.acct)), val()...)
	case "ld":
		return append(hdr(9), byte(o.acct))
	case "rej":
		return []byte{10, 0}
	}
	return []byte{11, 0} // err
}

func (o vc23Sop) term() []interface{} {
	val := func() []interface{} {
		if o.isU {
			return vL(vSym("u"), o.u)
		}
		return vL(vSym("b"), o.bytes)
	}
	switch o.kind {
	case "bc", "br":
		return vL(vSym(o.kind), o.name, o.size)
	case "bp":
		return vL(vSym("bp"), o.name, o.size, o.data)
	case "bput":
		return vL(vSym("bput"), o.name, o.data)
	case "bd":
		return vL(vSym("bd"), o.name)
	case "gp":
		return vL(vSym("gp"), o.name, val())
	case "gd":
		return vL(vSym("gd"), o.name)
	case "lp":
		return vL(vSym("lp"), o.acct, o.name, val())
	case "ld":
		return vL(vSym("ld"), o.acct, o.name)
	case "rej":
		return vL(vSym("rej"))
	}
	return vL(vSym("err"))
}

// what the generator knows about the state (as of the last block, updated optimistically)
type vc23Shadow struct {
	boxes  map[string]int                // name -> size
	global map[string]bool               // key -> is uint
	gs     basics.StateSchema
	local  map[int]map[string]bool       // account number -> key -> is uint (present iff opted in)
	ls     basics.StateSchema
	exists bool
}

type vc23Env struct {
	sh      vc23Shadow
	t       *testing.T
	l       *Ledger
	addrs   []basics.Address
	app     basics.AppIndex
	creator basics.Address
	proto   config.ConsensusParams
	names   [][]byte
	keys    [][]byte
	r       *vRand
	uniq    int
}

func (e *vc23Env) boxName() []byte {
	switch e.r.Intn(40) {
	case 0:
		return []byte{} // zero length: refused
	case 1:
		return e.r.Bytes(e.proto.MaxAppKeyLen + 1) // too long: refused
	}
	return e.names[e.r.Intn(len(e.names))]
}

func (e *vc23Env) key() []byte {
	if e.r.Intn(40) == 0 {
		return e.r.Bytes(e.proto.MaxAppKeyLen + 1)
	}
	return e.keys[e.r.Intn(len(e.keys))]
}

func (e *vc23Env) valueOf(o *vc23Sop) {
	if o.isU {
		o.u = e.r.Edge64()
		return
	}
	n := e.r.Intn(12)
	switch e.r.Intn(30) {
	case 0:
		n = e.proto.MaxAppBytesValueLen + 1
	case 1:
		n = e.proto.MaxAppSumKeyValueLens - len(o.name) + e.r.Intn(2) // at / just over the sum limit
		if n > e.proto.MaxAppBytesValueLen {
			n = e.proto.MaxAppBytesValueLen
		}
		if n < 0 {
			n = 0
		}
	}
	o.bytes = e.r.Bytes(n)
}

func (e *vc23Env) size() uint64 {
	switch e.r.Intn(30) {
	case 0:
		return e.proto.MaxBoxSize + 1 // refused
	case 1:
		return 0
	case 2:
		return 1024
	}
	return uint64(e.r.Intn(40))
}

func (e *vc23Env) pickBox(want bool) []byte {
	var l [][]byte
	for _, n := range e.names {
		if _, ok := e.sh.boxes[string(n)]; ok == want {
			l = append(l, n)
		}
	}
	if len(l) == 0 || e.r.Intn(8) == 0 {
		return e.boxName()
	}
	return l[e.r.Intn(len(l))]
}

// a key for a put of the given type that keeps the counts within the schema (mostly)
func (e *vc23Env) pickKey(kv map[string]bool, sch basics.StateSchema, isU bool) []byte {
	if e.r.Intn(8) == 0 {
		return e.key()
	}
	nu, nb := 0, 0
	for _, u := range kv {
		if u {
			nu++
		} else {
			nb++
		}
	}
	room := (isU && uint64(nu) < sch.NumUint) || (!isU && uint64(nb) < sch.NumByteSlice)
	var same, absent [][]byte
	for _, k := range e.keys {
		if u, ok := kv[string(k)]; ok && u == isU {
			same = append(same, k)
		} else if !ok {
			absent = append(absent, k)
		}
	}
	if room && len(absent) > 0 && (len(same) == 0 || e.r.Intn(2) == 0) {
		return absent[e.r.Intn(len(absent))]
	}
	if len(same) > 0 {
		return same[e.r.Intn(len(same))]
	}
	if e.r.Intn(4) == 0 {
		return e.key() // over the schema: refused
	}
	return nil
}

func (e *vc23Env) sop(sender int, acctNums []int) vc23Sop {
	r := e.r
	naccts := len(acctNums)
	resolve := func(i uint64) int {
		if i == 0 {
			return sender
		}
		if int(i) <= naccts {
			return acctNums[i-1]
		}
		return -1
	}
	optedIdx := func() uint64 {
		var l []uint64
		for i := 0; i <= naccts; i++ {
			if _, ok := e.sh.local[resolve(uint64(i))]; ok {
				l = append(l, uint64(i))
			}
		}
		if len(l) == 0 || r.Intn(10) == 0 {
			return uint64(r.Intn(naccts + 1))
		}
		return l[r.Intn(len(l))]
	}
	k := r.Intn(100)
	if len(e.sh.boxes) == 0 && k >= 16 && k < 56 && r.Intn(6) != 0 {
		k = 0 // nothing to resize / replace / delete yet
	}
	anyOpted := false
	for i := 0; i <= naccts; i++ {
		if _, ok := e.sh.local[resolve(uint64(i))]; ok {
			anyOpted = true
		}
	}
	if !anyOpted && k >= 76 && k < 96 && r.Intn(6) != 0 {
		k = r.Intn(76)
	}
	switch {
	case k < 16:
		o := vc23Sop{kind: "bc", name: e.pickBox(false), size: e.size()}
		if o.size <= e.proto.MaxBoxSize && len(o.name) > 0 && len(o.name) <= e.proto.MaxAppKeyLen {
			if _, ok := e.sh.boxes[string(o.name)]; !ok {
				e.sh.boxes[string(o.name)] = int(o.size)
			}
		}
		return o
	case k < 26:
		o := vc23Sop{kind: "br", name: e.pickBox(true), size: e.size()}
		if _, ok := e.sh.boxes[string(o.name)]; ok && o.size <= e.proto.MaxBoxSize {
			e.sh.boxes[string(o.name)] = int(o.size)
		}
		return o
	case k < 36:
		o := vc23Sop{kind: "bp", name: e.pickBox(true)}
		sz := e.sh.boxes[string(o.name)]
		n := r.Intn(10)
		if n > sz {
			n = sz
		}
		o.data = r.Bytes(n)
		o.size = uint64(r.Intn(sz - n + 1))
		if r.Intn(10) == 0 {
			o.size += uint64(1 + r.Intn(3)) // past the end
		}
		return o
	case k < 46:
		o := vc23Sop{kind: "bput", name: e.pickBox(r.Intn(2) == 0)}
		if sz, ok := e.sh.boxes[string(o.name)]; ok && r.Intn(10) != 0 {
			o.data = r.Bytes(sz)
			if sz > 60 {
				o.data = r.Bytes(r.Intn(40)) // would be a long argument: let it fail instead
			}
		} else {
			o.data = r.Bytes(r.Intn(40))
			if !ok && len(o.name) > 0 && len(o.name) <= e.proto.MaxAppKeyLen {
				e.sh.boxes[string(o.name)] = len(o.data)
			}
		}
		return o
	case k < 56:
		o := vc23Sop{kind: "bd", name: e.pickBox(r.Intn(5) != 0)}
		delete(e.sh.boxes, string(o.name))
		return o
	case k < 70:
		o := vc23Sop{kind: "gp"}
		o.isU = r.Intn(2) == 0
		o.name = e.pickKey(e.sh.global, e.sh.gs, o.isU)
		if o.name == nil {
			o = vc23Sop{kind: "gd", name: e.key()}
			delete(e.sh.global, string(o.name))
			return o
		}
		e.valueOf(&o)
		if len(o.name) <= e.proto.MaxAppKeyLen {
			e.sh.global[string(o.name)] = o.isU
		}
		return o
	case k < 76:
		o := vc23Sop{kind: "gd", name: e.key()}
		delete(e.sh.global, string(o.name))
		return o
	case k < 90:
		o := vc23Sop{kind: "lp", acct: optedIdx()}
		if r.Intn(30) == 0 {
			o.acct = uint64(naccts + 1) // invalid account reference
		}
		o.isU = r.Intn(2) == 0
		kv := e.sh.local[resolve(o.acct)]
		if kv == nil {
			o.name = e.key()
		} else {
			o.name = e.pickKey(kv, e.sh.ls, o.isU)
			if o.name == nil {
				o = vc23Sop{kind: "ld", name: e.key(), acct: o.acct}
				delete(kv, string(o.name))
				return o
			}
			if len(o.name) <= e.proto.MaxAppKeyLen {
				kv[string(o.name)] = o.isU
			}
		}
		e.valueOf(&o)
		return o
	case k < 96:
		o := vc23Sop{kind: "ld", name: e.key(), acct: optedIdx()}
		if kv := e.sh.local[resolve(o.acct)]; kv != nil {
			delete(kv, string(o.name))
		}
		return o
	case k < 98:
		return vc23Sop{kind: "rej"}
	default:
		return vc23Sop{kind: "err"}
	}
}

func vc23Class(err error) int {
	if err == nil {
		return 0
	}
	s := err.Error()
	switch {
	case strings.Contains(s, "rejected by ApprovalProgram"):
		return 1
	case strings.Contains(s, "logic eval error"):
		return 2
	}
	return 3
}

func vc23Tval(v basics.TealValue) []interface{} {
	if v.Type == basics.TealUintType {
		return vL(vSym("u"), v.Uint)
	}
	return vL(vSym("b"), []byte(v.Bytes))
}

func vc23KV(kv basics.TealKeyValue) []interface{} {
	ks := make([]string, 0, len(kv))
	for k := range kv {
		ks = append(ks, k)
	}
	sort.Strings(ks)
	l := vL()
	for _, k := range ks {
		l = append(l, vL([]byte(k), vc23Tval(kv[k])))
	}
	return l
}

// Ledger reads race with the asynchronous tracker commit: on a loaded machine the in-memory
// SQLite (shared cache) answers "database table is locked" and lookupLatest may report a stale
// database round.  The harness retries such reads (they are not what C23 is about).
func vc23Retry[T any](t *testing.T, f func() (T, error)) T {
	var err error
	for i := 0; i < 400; i++ {
		var v T
		v, err = f()
		if err == nil {
			return v
		}
		if !strings.Contains(err.Error(), "behind in-memory round") && !strings.Contains(err.Error(), "locked") {
			break
		}
		time.Sleep(5 * time.Millisecond)
	}
	t.Fatalf("ledger read failed: %v", err)
	panic("unreachable")
}

func (e *vc23Env) lookup(addr basics.Address) basics.AccountData {
	return vc23Retry(e.t, func() (basics.AccountData, error) {
		ad, _, _, err := e.l.LookupLatest(addr)
		return ad, err
	})
}

func (e *vc23Env) dump() []interface{} {
	e.l.trackers.waitAccountsWriting()
	rnd := e.l.Latest()
	acct := e.lookup(e.app.Address())
	prefix := apps.MakeBoxKey(uint64(e.app), "")
	keys := vc23Retry(e.t, func() ([]string, error) { return e.l.LookupKeysByPrefix(rnd, prefix, 10000) })
	sort.Strings(keys)
	e.sh = vc23Shadow{boxes: map[string]int{}, global: map[string]bool{}, local: map[int]map[string]bool{}}
	boxes := vL()
	for _, k := range keys {
		_, name, err := apps.SplitBoxKey(k)
		require.NoError(e.t, err)
		v := vc23Retry(e.t, func() ([]byte, error) { return e.l.LookupKv(rnd, k) })
		if v == nil {
			e.t.Fatalf("listed box %x has no value", name)
		}
		boxes = append(boxes, vL([]byte(name), v))
		e.sh.boxes[name] = len(v)
	}
	var g []interface{}
	if p, ok := e.lookup(e.creator).AppParams[e.app]; ok {
		g = vL(1, vL(p.GlobalStateSchema.NumUint, p.GlobalStateSchema.NumByteSlice), vc23KV(p.GlobalState))
		e.sh.exists, e.sh.gs, e.sh.ls = true, p.GlobalStateSchema, p.LocalStateSchema
		for k, v := range p.GlobalState {
			e.sh.global[k] = v.Type == basics.TealUintType
		}
	} else {
		g = vL(0)
	}
	ls := vL()
	for i, a := range e.addrs {
		if st, ok := e.lookup(a).AppLocalStates[e.app]; ok {
			ls = append(ls, vL(i+1, vL(st.Schema.NumUint, st.Schema.NumByteSlice), vc23KV(st.KeyValue)))
			kv := map[string]bool{}
			for k, v := range st.KeyValue {
				kv[k] = v.Type == basics.TealUintType
			}
			e.sh.local[i+1] = kv
		}
	}
	return vL(acct.TotalBoxes, acct.TotalBoxBytes, boxes, g, ls)
}

// history 0 is scripted: the observation recorded as C23_update_after_creator_closeout, replayed
// on the real code together with the neighbouring cases the model distinguishes
type vc23Fixed struct {
	sender int
	oc     string // noop optin closeout update
	gs     basics.StateSchema
}

var vc23Script = [][]vc23Fixed{
	{{1, "optin", basics.StateSchema{}}},
	{{1, "closeout", basics.StateSchema{}}, {2, "update", basics.StateSchema{}}, // refused: recovered panic
		{2, "noop", basics.StateSchema{}}, {1, "update", basics.StateSchema{}}}, // the creator itself may update
	{{2, "update", basics.StateSchema{}}}, // one block later: accepted
	{{1, "optin", basics.StateSchema{}}, {1, "closeout", basics.StateSchema{}},
		{3, "update", basics.StateSchema{NumUint: 2, NumByteSlice: 2}}}, // size change charged to the creator: accepted
	{{1, "optin", basics.StateSchema{}}, {1, "closeout", basics.StateSchema{}},
		{2, "update", basics.StateSchema{NumUint: 1, NumByteSlice: 1}}}, // the sponsor is account 3 now: refused
}

func TestVerifC23(t *testing.T) {
	out := vOpen("cases_c23.txt")
	defer out.Close()
	n := vEnvInt("VERIF_C23_N", 60)
	nblocks := vEnvInt("VERIF_C23_BLOCKS", 12)
	rnd := vNewRand(23)
	cv := protocol.ConsensusFuture
	proto := config.Consensus[cv]
	stats := map[string]int{}
	for h := 0; h < n; h++ {
		genBalances, addrs, _ := ledgertesting.NewTestGenesis()
		cfg := config.GetDefaultLocal()
		l := newSimpleLedgerWithConsensusVersion(t, genBalances, cv, cfg)
		e := &vc23Env{t: t, l: l, addrs: addrs[:4], proto: proto, r: rnd, creator: addrs[0]}
		for i := 0; i < 4; i++ {
			e.names = append(e.names, rnd.Bytes(1+rnd.Intn(8)))
		}
		if rnd.Intn(4) == 0 { // names that are prefixes of each other
			e.names[1] = append(append([]byte{}, e.names[0]...), rnd.Bytes(1+rnd.Intn(3))...)
		}
		if rnd.Intn(6) == 0 {
			e.names[2] = rnd.Bytes(proto.MaxAppKeyLen)
		}
		nkeys := 2 + rnd.Intn(5)
		for i := 0; i < nkeys; i++ {
			e.keys = append(e.keys, rnd.Bytes(rnd.Intn(6)))
		}
		if rnd.Intn(6) == 0 {
			e.keys[0] = rnd.Bytes(proto.MaxAppKeyLen)
		}
		scripted := h == 0
		gs := basics.StateSchema{NumUint: uint64(1 + rnd.Intn(3)), NumByteSlice: uint64(1 + rnd.Intn(3))}
		ls := basics.StateSchema{NumUint: uint64(1 + rnd.Intn(2)), NumByteSlice: uint64(1 + rnd.Intn(2))}
		if rnd.Intn(5) == 0 {
			gs = basics.StateSchema{NumUint: uint64(rnd.Intn(2)), NumByteSlice: uint64(rnd.Intn(2))}
			ls = basics.StateSchema{NumUint: uint64(rnd.Intn(2)), NumByteSlice: uint64(rnd.Intn(2))}
		}
		if scripted {
			gs, ls = basics.StateSchema{NumUint: 1, NumByteSlice: 1}, basics.StateSchema{NumUint: 1, NumByteSlice: 1}
		}
		// create and fund the application
		ev := nextBlock(t, l)
		create := txntest.Txn{Type: "appl", Sender: e.creator, ApprovalProgram: vc23Interpreter, ClearStateProgram: vc23Interpreter,
			GlobalStateSchema: gs, LocalStateSchema: ls}
		txn(t, l, ev, &create)
		vb := endBlock(t, l, ev)
		e.app = basics.AppIndex(vb.Block().BlockHeader.TxnCounter)
		ev = nextBlock(t, l)
		txn(t, l, ev, &txntest.Txn{Type: "pay", Sender: e.creator, Receiver: e.app.Address(), Amount: 500_000_000})
		endBlock(t, l, ev)

		e.dump() // initial shadow
		blocks := vL()
		nb := 3 + rnd.Intn(nblocks)
		if scripted {
			nb = len(vc23Script)
		}
		for b := 0; b < nb; b++ {
			ev := nextBlock(t, l)
			calls := vL()
			ncalls := 1 + rnd.Intn(4)
			if scripted {
				ncalls = len(vc23Script[b])
			}
			type pend struct {
				idx  int
				call []interface{}
			}
			var pending []pend
			for c := 0; c < ncalls; c++ {
				sender := 1 + rnd.Intn(len(e.addrs))
				var accts []basics.Address
				acctNums := vL()
				var acctInts []int
				na := rnd.Intn(3)
				for i := 0; i < na; i++ {
					x := 1 + rnd.Intn(len(e.addrs))
					accts = append(accts, e.addrs[x-1])
					acctNums = append(acctNums, x)
					acctInts = append(acctInts, x)
				}
				_, opted := e.sh.local[sender]
				var oc transactions.OnCompletion
				var ocT interface{} = vSym("noop")
				tx := txntest.Txn{Type: "appl", Sender: e.addrs[sender-1], ApplicationID: e.app, Accounts: accts}
				switch k := rnd.Intn(100); {
				case k < 60:
					oc = transactions.NoOpOC
				case k < 78 && (!opted || rnd.Intn(6) == 0):
					oc, ocT = transactions.OptInOC, vSym("optin")
					if !opted && e.sh.exists {
						e.sh.local[sender] = map[string]bool{}
					}
				case k < 78:
					oc = transactions.NoOpOC
				case k < 86 && (opted || rnd.Intn(4) == 0):
					oc, ocT = transactions.CloseOutOC, vSym("closeout")
				case k < 93 && (opted || rnd.Intn(4) == 0):
					oc, ocT = transactions.ClearStateOC, vSym("clear")
				case k < 93:
					oc = transactions.NoOpOC
				case k < 99:
					oc = transactions.UpdateApplicationOC
					ngs := basics.StateSchema{NumUint: uint64(rnd.Intn(4)), NumByteSlice: uint64(rnd.Intn(4))}
					if rnd.Intn(3) == 0 {
						ngs = basics.StateSchema{}
					}
					tx.ApprovalProgram, tx.ClearStateProgram, tx.GlobalStateSchema = vc23Interpreter, vc23Interpreter, ngs
					ocT = vL(vSym("update"), ngs.NumUint, ngs.NumByteSlice)
				default:
					if b < nb-2 { // rarely, and not too early
						oc = transactions.NoOpOC
					} else {
						oc, ocT = transactions.DeleteApplicationOC, vSym("delete")
					}
				}
				nops := rnd.Intn(7)
				if rnd.Intn(5) == 0 {
					nops = 0
				}
				if scripted {
					f := vc23Script[b][c]
					sender, accts, acctNums, acctInts, nops = f.sender, nil, vL(), nil, 0
					tx = txntest.Txn{Type: "appl", Sender: e.addrs[sender-1], ApplicationID: e.app}
					switch f.oc {
					case "optin":
						oc, ocT = transactions.OptInOC, vSym("optin")
					case "closeout":
						oc, ocT = transactions.CloseOutOC, vSym("closeout")
					case "update":
						oc = transactions.UpdateApplicationOC
						tx.ApprovalProgram, tx.ClearStateProgram, tx.GlobalStateSchema = vc23Interpreter, vc23Interpreter, f.gs
						ocT = vL(vSym("update"), f.gs.NumUint, f.gs.NumByteSlice)
					default:
						oc, ocT = transactions.NoOpOC, vSym("noop")
					}
				}
				tx.OnCompletion = oc
				script := vL()
				total := 0
				for i := 0; i < nops; i++ {
					o := e.sop(sender, acctInts)
					a := o.arg()
					if total+len(a) > proto.MaxAppTotalArgLen-100 {
						break
					}
					total += len(a)
					tx.ApplicationArgs = append(tx.ApplicationArgs, a)
					script = append(script, o.term())
					stats["sop_"+o.kind]++
				}
				for _, nm := range e.names {
					tx.Boxes = append(tx.Boxes, transactions.BoxRef{Index: 0, Name: nm})
				}
				e.uniq++
				tx.Note = vc23U64(uint64(e.uniq))
				fillDefaults(t, l, ev, &tx)
				stxn := tx.SignedTxn()
				before := ev.PaySetSize()
				err := ev.TestTransactionGroup([]transactions.SignedTxn{stxn})
				if err != nil {
					t.Fatalf("harness generated a malformed transaction: %v", err)
				}
				err = ev.TransactionGroup(stxn.WithAD())
				code := vc23Class(err)
				stats["code_"+string(rune('0'+code))]++
				call := vL(vSym("call"), sender, acctNums, ocT, script, code)
				if err == nil {
					pending = append(pending, pend{before, call})
				} else {
					call = append(call, vL())
				}
				calls = append(calls, call)
			}
			vb := endBlock(t, l, ev)
			// logs of the committed calls, from the validated block
			j := 0
			for ci := range calls {
				c := calls[ci].([]interface{})
				if len(c) == 6 {
					p := pending[j]
					j++
					logs := vL()
					for _, lg := range vb.Block().Payset[p.idx].ApplyData.EvalDelta.Logs {
						if len(lg) != 1 {
							t.Fatalf("unexpected log %x", lg)
						}
						logs = append(logs, int(lg[0]))
					}
					calls[ci] = append(c, logs)
				}
			}
			blocks = append(blocks, vL(calls, e.dump()))
		}
		out.Case(vSym("c23"), vL(proto.MaxAppKeyLen, proto.MaxBoxSize, proto.MaxAppBytesValueLen, proto.MaxAppSumKeyValueLens),
			1 /* the creator is account 1 */, vL(gs.NumUint, gs.NumByteSlice), vL(ls.NumUint, ls.NumByteSlice), blocks)
		l.Close()
	}
	st := map[string]interface{}{"histories": n}
	for k, v := range stats {
		st[k] = v
	}
	vStats(st)
}
