//go:build verif

package ledger

// C14 harness: ONE generated history (prepared StateDeltas: accounts of all statuses, asset / app
// resources, boxes) is replayed on several real tracker stacks (accountUpdates + catchpointTracker +
// onlineAccounts + txTail under a real trackerRegistry on SQLite, package helper
// mockLedgerForTracker) that differ in commit schedule, reload points, CatchpointInterval,
// MaxAcctLookback, catchpoint file generation and merkletrie.MemoryConfig.  After every commit /
// reload the committed trie root (a FRESH merkletrie.Trie over the stored pages), the first-stage
// record and every label created are observed.  The harness' own oracle folds the deltas into
// state_at(r), hashes every live entry with the real leaf builders into a fresh in-memory trie and
// recomputes the labels with ledgercore.MakeLabel.
// One case line = one history with all its ledgers; format in coq/model/CatchpointLabelCheck.v.
// Shared with the C16 harness (zz_verif_c16_test.go): vc14World, the generator and the oracle.

import (
	"bytes"
	"context"
	"encoding/binary"
	"fmt"
	"os"
	"path/filepath"
	"regexp"
	"sort"
	"strconv"
	"sync"
	"testing"
	"time"

	"github.com/stretchr/testify/require"

	"github.com/algorand/avm-abi/apps"
	"github.com/algorand/go-algorand/config"
	"github.com/algorand/go-algorand/crypto"
	"github.com/algorand/go-algorand/crypto/merkletrie"
	"github.com/algorand/go-algorand/data/basics"
	"github.com/algorand/go-algorand/data/bookkeeping"
	"github.com/algorand/go-algorand/ledger/ledgercore"
	"github.com/algorand/go-algorand/ledger/store/trackerdb"
	"github.com/algorand/go-algorand/ledger/store/trackerdb/sqlitedriver"
	"github.com/algorand/go-algorand/logging"
	"github.com/algorand/go-algorand/protocol"
	"github.com/algorand/go-algorand/util/db"
)

// ---------- protocols with a short catchpoint lookback ----------
type vc14Proto struct {
	ver      protocol.ConsensusVersion
	lookback uint64
	nx       int // digests after the totals in the label: V7 1, current 3
}

var vc14Lookbacks = []uint64{2, 3, 4, 8}

func vc14InstallProtos() (protos []vc14Proto, undo func()) {
	var names []protocol.ConsensusVersion
	for _, lb := range vc14Lookbacks {
		for _, nx := range []int{1, 3} {
			p := config.Consensus[protocol.ConsensusCurrentVersion]
			p.CatchpointLookback = lb
			p.EnableCatchpointsWithSPContexts = true
			p.EnableCatchpointsWithOnlineAccounts = nx == 3
			name := protocol.ConsensusVersion(fmt.Sprintf("verif-c14-L%d-x%d", lb, nx))
			config.Consensus[name] = p
			names = append(names, name)
			protos = append(protos, vc14Proto{name, lb, nx})
		}
	}
	return protos, func() {
		for _, n := range names {
			delete(config.Consensus, n)
		}
	}
}

// ---------- keys and values ----------
func vc14Addr(n uint64) (a basics.Address) {
	a[0] = 0xc1
	binary.BigEndian.PutUint64(a[8:16], n)
	a[31] = byte(n*37 + 1)
	return
}

type vc14ResKey struct {
	addr basics.Address
	cidx uint64
}

func vc14IsApp(cidx uint64) bool { return cidx%2 == 1 }

// one entry of a round's delta, as the generator describes it
type vc14Mod struct {
	class int // 0 account, 1 resource, 2 kv
	addr  basics.Address
	cidx  uint64
	key   string
	acct  ledgercore.AccountData // class 0; the zero value closes the account
	p, h  int64                  // class 1: -1 nil & not deleted, -2 deleted, n >= 0 set to n
	data  []byte                 // class 2: nil = deleted
	old   []byte                 // class 2: KvValueDelta.OldData
}

type vc14Cre struct {
	cidx    uint64
	created bool
	creator basics.Address
}

type vc14Block struct {
	mods   []vc14Mod
	cre    []vc14Cre // StateDelta.Creatables (only the C16 generator fills it)
	totals ledgercore.AccountTotals
	seed   [32]byte
}

// the oracle's view of a ledger state: what the tracker DB rows must be
type vc14State struct {
	acct map[basics.Address]trackerdb.BaseAccountData
	res  map[vc14ResKey]trackerdb.ResourcesData
	kv   map[string][]byte
}

func vc14NewState() *vc14State {
	return &vc14State{map[basics.Address]trackerdb.BaseAccountData{}, map[vc14ResKey]trackerdb.ResourcesData{}, map[string][]byte{}}
}

func (s *vc14State) clone() *vc14State {
	c := vc14NewState()
	for k, v := range s.acct {
		c.acct[k] = v
	}
	for k, v := range s.res {
		c.res[k] = v
	}
	for k, v := range s.kv {
		c.kv[k] = v
	}
	return c
}

// value term (#data upd rb isasset #leaf); nil when the entry does not exist
func vc14AcctVal(addr basics.Address, b trackerdb.BaseAccountData) []interface{} {
	enc := protocol.Encode(&b)
	return vL(enc, b.UpdateRound, b.RewardsBase, 0, trackerdb.AccountHashBuilderV6(addr, &b, enc))
}

func vc14ResVal(k vc14ResKey, rd trackerdb.ResourcesData) []interface{} {
	enc := protocol.Encode(&rd)
	leaf, err := trackerdb.ResourcesHashBuilderV6(&rd, k.addr, basics.CreatableIndex(k.cidx), rd.UpdateRound, enc)
	if err != nil {
		panic(err)
	}
	isAsset := 0
	if rd.IsAsset() {
		isAsset = 1
	}
	return vL(enc, rd.UpdateRound, 0, isAsset, leaf)
}

func vc14KvVal(key string, v []byte) []interface{} {
	return vL(v, 0, 0, 0, trackerdb.KvHashBuilderV6(key, v))
}

func (s *vc14State) leaves() [][]byte {
	var out [][]byte
	for a, b := range s.acct {
		b := b
		out = append(out, trackerdb.AccountHashBuilderV6(a, &b, protocol.Encode(&b)))
	}
	for k, rd := range s.res {
		rd := rd
		l, err := trackerdb.ResourcesHashBuilderV6(&rd, k.addr, basics.CreatableIndex(k.cidx), rd.UpdateRound, protocol.Encode(&rd))
		if err != nil {
			panic(err)
		}
		out = append(out, l)
	}
	for k, v := range s.kv {
		out = append(out, trackerdb.KvHashBuilderV6(k, v))
	}
	sort.Slice(out, func(i, j int) bool { return bytes.Compare(out[i], out[j]) < 0 })
	return out
}

// root of a FRESH trie (default configuration, in-memory committer) holding the given leaves
func vc14FreshRoot(leaves [][]byte) crypto.Digest {
	trie, err := merkletrie.MakeTrie(&merkletrie.InMemoryCommitter{}, merkletrie.MemoryConfig{NodesCountPerPage: 116, CachedNodesCount: 9000, PageFillFactor: 0.95, MaxChildrenPagesThreshold: 64})
	if err != nil {
		panic(err)
	}
	for _, l := range leaves {
		if _, err := trie.Add(l); err != nil {
			panic(err)
		}
	}
	root, err := trie.RootHash()
	if err != nil {
		panic(err)
	}
	return root
}

// apply one round to the oracle state; returns the (KEY NEW OLD) terms of the round
func (s *vc14State) apply(rnd uint64, mods []vc14Mod) (terms []interface{}) {
	terms = vL()
	for _, m := range mods {
		switch m.class {
		case 0:
			var b trackerdb.BaseAccountData
			b.SetCoreAccountData(&m.acct)
			b.UpdateRound = rnd
			key := vL(0, m.addr[:], 0)
			if b.IsEmpty() {
				delete(s.acct, m.addr)
				terms = append(terms, vL(key, vSym("nil"), vSym("nil")))
			} else {
				s.acct[m.addr] = b
				terms = append(terms, vL(key, vc14AcctVal(m.addr, b), vSym("nil")))
			}
		case 1:
			k := vc14ResKey{m.addr, m.cidx}
			rd := trackerdb.MakeResourcesData(rnd)
			ap, ah, pp, al := vc14ResDeltas(m)
			if vc14IsApp(m.cidx) {
				rd.SetAppData(pp, al)
			} else {
				rd.SetAssetData(ap, ah)
			}
			key := vL(1, m.addr[:], m.cidx)
			if rd.IsEmpty() {
				delete(s.res, k)
				terms = append(terms, vL(key, vSym("nil"), vSym("nil")))
			} else {
				s.res[k] = rd
				terms = append(terms, vL(key, vc14ResVal(k, rd), vSym("nil")))
			}
		case 2:
			key := vL(2, []byte(m.key), 0)
			var nw, old interface{} = vSym("nil"), vSym("nil")
			if m.old != nil {
				old = vc14KvVal(m.key, m.old)
			}
			if m.data == nil {
				delete(s.kv, m.key)
			} else {
				s.kv[m.key] = m.data
				nw = vc14KvVal(m.key, m.data)
			}
			terms = append(terms, vL(key, nw, old))
		}
	}
	return
}

func vc14ResDeltas(m vc14Mod) (ap ledgercore.AssetParamsDelta, ah ledgercore.AssetHoldingDelta, pp ledgercore.AppParamsDelta, al ledgercore.AppLocalStateDelta) {
	if vc14IsApp(m.cidx) {
		if m.p >= 0 {
			pp.Params = &basics.AppParams{StateSchemas: basics.StateSchemas{GlobalStateSchema: basics.StateSchema{NumUint: uint64(m.p)}}, ApprovalProgram: []byte{6, byte(m.p)}}
		} else if m.p == -2 {
			pp.Deleted = true
		}
		if m.h >= 0 {
			al.LocalState = &basics.AppLocalState{Schema: basics.StateSchema{NumUint: uint64(m.h)}}
		} else if m.h == -2 {
			al.Deleted = true
		}
		return
	}
	if m.p >= 0 {
		ap.Params = &basics.AssetParams{Total: uint64(m.p), UnitName: "u"}
	} else if m.p == -2 {
		ap.Deleted = true
	}
	if m.h >= 0 {
		ah.Holding = &basics.AssetHolding{Amount: uint64(m.h)}
	} else if m.h == -2 {
		ah.Deleted = true
	}
	return
}

// the real block + StateDelta of a round
func (b *vc14Block) build(rnd basics.Round, proto protocol.ConsensusVersion) (bookkeeping.Block, ledgercore.StateDelta) {
	blk := bookkeeping.Block{BlockHeader: bookkeeping.BlockHeader{Round: rnd}}
	blk.CurrentProtocol = proto
	blk.BlockHeader.Seed = b.seed
	delta := ledgercore.MakeStateDelta(&blk.BlockHeader, 0, len(b.mods)+1, 0)
	for _, m := range b.mods {
		switch m.class {
		case 0:
			delta.Accts.Upsert(m.addr, m.acct)
		case 1:
			ap, ah, pp, al := vc14ResDeltas(m)
			if vc14IsApp(m.cidx) {
				delta.Accts.UpsertAppResource(m.addr, basics.AppIndex(m.cidx), pp, al)
			} else {
				delta.Accts.UpsertAssetResource(m.addr, basics.AssetIndex(m.cidx), ap, ah)
			}
		case 2:
			if delta.KvMods == nil {
				delta.KvMods = make(map[string]ledgercore.KvValueDelta)
			}
			delta.KvMods[m.key] = ledgercore.KvValueDelta{Data: m.data, OldData: m.old}
		}
	}
	for _, c := range b.cre {
		if delta.Creatables == nil {
			delta.Creatables = make(map[basics.CreatableIndex]ledgercore.ModifiedCreatable)
		}
		ct := basics.AssetCreatable
		if vc14IsApp(c.cidx) {
			ct = basics.AppCreatable
		}
		delta.Creatables[basics.CreatableIndex(c.cidx)] = ledgercore.ModifiedCreatable{Ctype: ct, Created: c.created, Creator: c.creator}
	}
	delta.Totals = b.totals
	return blk, delta
}

// ---------- a history ----------
type vc14History struct {
	proto   vc14Proto
	genesis map[basics.Address]basics.AccountData
	blocks  []vc14Block
	// oracle, index = round
	states  []*vc14State
	modTerm [][]interface{}
	digests []crypto.Digest
	roots   []crypto.Digest
	leaves  [][][]byte
	gtotals ledgercore.AccountTotals
}

func vc14Totals(accts map[basics.Address]ledgercore.AccountData) (t ledgercore.AccountTotals) {
	for _, a := range accts {
		switch a.Status {
		case basics.Online:
			t.Online.Money.Raw += a.MicroAlgos.Raw
			t.Online.RewardUnits += a.MicroAlgos.Raw / 1000000
		case basics.Offline:
			t.Offline.Money.Raw += a.MicroAlgos.Raw
			t.Offline.RewardUnits += a.MicroAlgos.Raw / 1000000
		default:
			t.NotParticipating.Money.Raw += a.MicroAlgos.Raw
		}
	}
	return
}

func vc14BoxKey(app uint64, name string) string { return apps.MakeBoxKey(app, name) }

// generator: n rounds over a small universe; box names have ONE length, so that no two different
// entries share a leaf (C15: the KV pre-image is ambiguous only across key lengths)
func vc14GenHistory(r *vRand, proto vc14Proto, nrounds int, stats map[string]int) *vc14History {
	h := &vc14History{proto: proto, genesis: map[basics.Address]basics.AccountData{}}
	cur := map[basics.Address]ledgercore.AccountData{}
	nacct := 5 + r.Intn(4)
	addrs := make([]basics.Address, 0, nacct+3)
	online := func(i uint64) basics.VotingData {
		var v basics.VotingData
		v.VoteID[0] = byte(i + 1)
		v.SelectionID[0] = byte(i + 2)
		v.VoteFirstValid = 1
		v.VoteLastValid = basics.Round(1000 + i)
		v.VoteKeyDilution = 10
		return v
	}
	for i := 0; i < nacct; i++ {
		a := vc14Addr(uint64(i + 1))
		addrs = append(addrs, a)
		ad := basics.AccountData{MicroAlgos: basics.MicroAlgos{Raw: uint64(1000000 * (1 + r.Intn(50)))}}
		switch r.Intn(3) {
		case 0:
			ad.Status = basics.Online
			v := online(uint64(i))
			ad.VoteID, ad.SelectionID, ad.VoteFirstValid, ad.VoteLastValid, ad.VoteKeyDilution = v.VoteID, v.SelectionID, v.VoteFirstValid, v.VoteLastValid, v.VoteKeyDilution
		case 1:
			ad.Status = basics.NotParticipating
		}
		h.genesis[a] = ad
		cur[a] = ledgercore.ToAccountData(ad)
	}
	for i := 0; i < 3; i++ { // addresses that do not exist at genesis
		addrs = append(addrs, vc14Addr(uint64(100+i)))
	}
	h.gtotals = vc14Totals(cur)
	cidxs := []uint64{2, 3, 4, 5, 6, 7}
	res := map[vc14ResKey][2]int64{}
	kv := map[string][]byte{}
	names := []string{"aa", "ab", "ba", "bb", "ca"}
	vals := [][]byte{[]byte("c"), []byte("bc"), {}, []byte("xyz"), []byte("c")}

	for rnd := 1; rnd <= nrounds; rnd++ {
		var b vc14Block
		copy(b.seed[:], r.Bytes(32))
		touchedA := map[basics.Address]bool{}
		touchedR := map[vc14ResKey]bool{}
		touchedK := map[string]bool{}
		n := r.Intn(6)
		if r.Intn(7) == 0 {
			n = 0
		}
		for i := 0; i < n; i++ {
			a := addrs[r.Intn(len(addrs))]
			switch r.Intn(10) {
			case 0, 1, 2: // balance / status change (also creates the account)
				if touchedA[a] {
					break
				}
				x := cur[a]
				x.MicroAlgos.Raw = uint64(1000000 * (1 + r.Intn(50)))
				switch r.Intn(6) {
				case 0:
					x.Status = basics.Online
					x.VotingData = online(uint64(r.Intn(200)))
					stats["go_online"]++
				case 1:
					x.Status = basics.Offline
					x.VotingData = basics.VotingData{}
				case 2:
					if x.Status != basics.Online {
						x.AuthAddr = vc14Addr(uint64(r.Intn(3)))
						if r.Intn(2) == 0 {
							x.AuthAddr = basics.Address{}
						}
					}
				}
				touchedA[a] = true
				cur[a] = x
				b.mods = append(b.mods, vc14Mod{class: 0, addr: a, acct: x})
				stats["acct_change"]++
			case 3: // touched, not changed
				if touchedA[a] || cur[a].MicroAlgos.Raw == 0 {
					break
				}
				touchedA[a] = true
				b.mods = append(b.mods, vc14Mod{class: 0, addr: a, acct: cur[a]})
				stats["acct_touch"]++
			case 4: // close (never the first two genesis accounts: the trie is never empty)
				if touchedA[a] || a == addrs[0] || a == addrs[1] || cur[a].MicroAlgos.Raw == 0 {
					break
				}
				ok := true
				for _, c := range cidxs {
					if touchedR[vc14ResKey{a, c}] {
						ok = false
					}
				}
				if !ok {
					break
				}
				for _, c := range cidxs {
					k := vc14ResKey{a, c}
					if _, has := res[k]; has {
						delete(res, k)
						touchedR[k] = true
						b.mods = append(b.mods, vc14Mod{class: 1, addr: a, cidx: c, p: -2, h: -2})
					}
				}
				touchedA[a] = true
				delete(cur, a)
				b.mods = append(b.mods, vc14Mod{class: 0, addr: a})
				stats["acct_close"]++
			case 5, 6: // resource life cycle on a live account
				if cur[a].MicroAlgos.Raw == 0 {
					break
				}
				c := cidxs[r.Intn(len(cidxs))]
				k := vc14ResKey{a, c}
				if touchedR[k] {
					break
				}
				old, had := res[k]
				if !had {
					old = [2]int64{-1, -1}
				}
				nw := old
				half := r.Intn(2)
				switch r.Intn(4) {
				case 0, 1:
					nw[half] = int64(r.Intn(5))
				case 2:
					nw[half] = -1
				case 3:
					nw = [2]int64{-1, -1}
				}
				if nw == old && !had {
					break
				}
				m := vc14Mod{class: 1, addr: a, cidx: c, p: nw[0], h: nw[1]}
				// a half that existed and is gone now is "deleted"; one that never existed stays nil
				if nw[0] < 0 && old[0] >= 0 {
					m.p = -2
				}
				if nw[1] < 0 && old[1] >= 0 {
					m.h = -2
				}
				if nw[0] < 0 && nw[1] < 0 {
					delete(res, k)
				} else {
					res[k] = nw
				}
				touchedR[k] = true
				b.mods = append(b.mods, m)
				stats["res_change"]++
			default: // boxes
				key := vc14BoxKey(7, names[r.Intn(len(names))])
				if touchedK[key] {
					break
				}
				old, had := kv[key]
				var nw []byte
				switch {
				case !had || r.Intn(3) > 0:
					nw = vals[r.Intn(len(vals))]
					if nw == nil {
						nw = []byte{}
					}
				default:
					nw = nil
				}
				m := vc14Mod{class: 2, key: key, data: nw}
				if had {
					m.old = old
				}
				if nw == nil {
					delete(kv, key)
					stats["kv_delete"]++
				} else {
					kv[key] = nw
					if had && bytes.Equal(old, nw) {
						stats["kv_same_value"]++
					}
					stats["kv_put"]++
				}
				touchedK[key] = true
				b.mods = append(b.mods, m)
			}
		}
		b.totals = vc14Totals(cur)
		h.blocks = append(h.blocks, b)
	}
	h.oracle()
	return h
}

// fold the deltas: state, leaves, fresh root and block digest of every round
func (h *vc14History) oracle() {
	s := vc14NewState()
	for a, ad := range h.genesis {
		var b trackerdb.BaseAccountData
		ad := ad
		b.SetAccountData(&ad)
		s.acct[a] = b
	}
	h.states = []*vc14State{s.clone()}
	h.modTerm = [][]interface{}{nil}
	h.digests = []crypto.Digest{{}}
	for i := range h.blocks {
		rnd := uint64(i + 1)
		h.modTerm = append(h.modTerm, s.apply(rnd, h.blocks[i].mods))
		h.states = append(h.states, s.clone())
		blk, _ := h.blocks[i].build(basics.Round(rnd), h.proto.ver)
		h.digests = append(h.digests, blk.Digest())
	}
	for _, st := range h.states {
		l := st.leaves()
		h.leaves = append(h.leaves, l)
		h.roots = append(h.roots, vc14FreshRoot(l))
	}
}

func (h *vc14History) totalsAt(r uint64) ledgercore.AccountTotals {
	if r == 0 {
		return h.gtotals
	}
	return h.blocks[r-1].totals
}

// ---------- one ledger ----------
type vc14Cfg struct {
	interval     uint64
	acctLookback uint64
	tracking     int64
	mem          merkletrie.MemoryConfig
	memID        int
	crash        bool // on-disk tracker DB: the node can lose power between the commit transaction and the second stage
}

// vc14Blocker sits in front of the catchpoint tracker.  When armed it parks the commit syncer right after the
// tracker commit transaction became durable (postCommit of every tracker done) and before the catchpoint
// tracker's postCommitUnlocked (first stage / second stage / pruning): the spot where the harness pulls the plug.
type vc14Blocker struct {
	emptyTracker
	w       *vc14World
	mu      sync.Mutex
	armed   bool
	entered chan struct{}
	release chan struct{}
}

func (b *vc14Blocker) postCommitUnlocked(ctx context.Context, dcc *deferredCommitContext) {
	// the first-stage rows the catchpoints of this commit are about to use (and prune): a recovery followed by
	// the flush of replay() completes a first stage and consumes it inside ONE harness operation, so this is the
	// only place where its digests (needed for the oracle label) can be seen
	if w := b.w; w != nil && w.ct != nil && w.ct.catchpointStore != nil {
		lo := uint64(0)
		if uint64(dcc.oldBase) > w.h.proto.lookback {
			lo = uint64(dcc.oldBase) - w.h.proto.lookback
		}
		for r := lo; r <= uint64(dcc.newBase()); r++ {
			if _, seen := w.firsts[r]; !seen {
				if fi, ok, err := w.ct.catchpointStore.SelectCatchpointFirstStageInfo(ctx, basics.Round(r)); err == nil && ok {
					w.firsts[r] = fi
				}
			}
		}
	}
	b.mu.Lock()
	armed := b.armed
	b.armed = false
	b.mu.Unlock()
	if armed {
		close(b.entered)
		<-b.release
	}
}

var vc14MemConfigs = []merkletrie.MemoryConfig{
	{NodesCountPerPage: 116, CachedNodesCount: 9000, PageFillFactor: 0.95, MaxChildrenPagesThreshold: 64}, // production
	{NodesCountPerPage: 4, CachedNodesCount: 8, PageFillFactor: 0.5, MaxChildrenPagesThreshold: 2},
	{NodesCountPerPage: 2, CachedNodesCount: 0, PageFillFactor: 1.0, MaxChildrenPagesThreshold: 1},
	{NodesCountPerPage: 16, CachedNodesCount: 3, PageFillFactor: 0.25, MaxChildrenPagesThreshold: 8},
	{NodesCountPerPage: 512, CachedNodesCount: 100000, PageFillFactor: 0.0, MaxChildrenPagesThreshold: 64},
}

type vc14LogSink struct {
	mu  sync.Mutex
	buf bytes.Buffer
}

func (s *vc14LogSink) Write(p []byte) (int, error) {
	s.mu.Lock()
	defer s.mu.Unlock()
	return s.buf.Write(p)
}

func (s *vc14LogSink) take() string {
	s.mu.Lock()
	defer s.mu.Unlock()
	out := s.buf.String()
	s.buf.Reset()
	return out
}

var vc14LabelRe = regexp.MustCompile(`creating catchpoint round: (\d+) accountsRound: (\d+) label: ([0-9]+#[A-Z2-7]+)`)
var vc14TrieErrRe = regexp.MustCompile(`failed to delete (kv |resource )?hash|attempted to add duplicate (kv |resource )?hash`)

type vc14World struct {
	t    *testing.T
	h    *vc14History
	cfg  vc14Cfg
	conf config.Local
	ml   *mockLedgerForTracker
	ct   *catchpointTracker
	blk  *vc14Blocker
	sink *vc14LogSink
	log  logging.Logger
	hot  string
	cold string
	next int // next block to add (index into h.blocks)
	// everything observed
	labels   map[uint64]string
	firsts   map[uint64]trackerdb.CatchpointFirstStageInfo
	trieErrs int
	lastLogs string // tracker log of the last observed operation
}

func vc14Open(t *testing.T, h *vc14History, cfg vc14Cfg) *vc14World {
	w := &vc14World{t: t, h: h, cfg: cfg, sink: &vc14LogSink{}, labels: map[uint64]string{}, firsts: map[uint64]trackerdb.CatchpointFirstStageInfo{}}
	w.log = logging.NewLogger()
	w.log.SetOutput(w.sink)
	w.log.SetLevel(logging.Info)
	w.conf = config.GetDefaultLocal()
	w.conf.MaxAcctLookback = cfg.acctLookback
	w.conf.CatchpointInterval = cfg.interval
	w.conf.CatchpointTracking = cfg.tracking
	w.conf.CatchpointFileHistoryLength = -1
	w.hot, w.cold = t.TempDir(), t.TempDir()
	trackerdb.TrieMemoryConfig = cfg.mem
	w.ml = makeMockLedgerForTrackerWithLogger(t, !cfg.crash, 1, h.proto.ver, []map[basics.Address]basics.AccountData{h.genesis}, w.log)
	w.openTrackers(true)
	return w
}

func (w *vc14World) openTrackers(first bool) {
	au := &accountUpdates{}
	ct := &catchpointTracker{}
	ao := &onlineAccounts{}
	au.initialize(w.conf)
	paths := DirsAndPrefix{ResolvedGenesisDirs: config.ResolvedGenesisDirs{CatchpointGenesisDir: w.cold, HotGenesisDir: w.hot}}
	ct.initialize(w.conf, paths)
	ao.initialize(w.conf)
	if first {
		_, err := trackerDBInitialize(w.ml, ct.catchpointEnabled(), w.hot)
		require.NoError(w.t, err)
	} else {
		w.ml.trackers = trackerRegistry{log: w.log}
	}
	w.blk = &vc14Blocker{w: w}
	w.ct = ct
	err := w.ml.trackers.initialize(w.ml, []ledgerTracker{au, w.blk, ct, ao, &txTail{}}, w.conf)
	require.NoError(w.t, err)
	err = w.ml.trackers.loadFromDisk(w.ml)
	require.NoError(w.t, err)
	w.ct = ct
}

func (w *vc14World) close() {
	w.ml.Close()
}

func (w *vc14World) settle() {
	w.ml.trackers.waitAccountsWriting()
	for w.ct.isWritingCatchpointDataFile() {
		time.Sleep(time.Millisecond)
	}
}

func (w *vc14World) opBlock() {
	rnd := basics.Round(w.next + 1)
	blk, delta := w.h.blocks[w.next].build(rnd, w.h.proto.ver)
	w.ml.addBlock(blockEntry{block: blk}, delta)
	w.next++
}

func (w *vc14World) opCommit(r uint64) {
	trackerdb.TrieMemoryConfig = w.cfg.mem
	w.ml.trackers.mu.Lock()
	w.ml.trackers.lastFlushTime = time.Time{}
	w.ml.trackers.mu.Unlock()
	w.ml.trackers.committedUpTo(basics.Round(r))
	w.settle()
}

func (w *vc14World) opReload() {
	trackerdb.TrieMemoryConfig = w.cfg.mem
	w.settle()
	w.ml.trackers.close()
	w.openTrackers(false)
	w.settle()
}

// opCrash: committedUpTo(r); if a commit happens, the tracker DB files are copied at the moment the commit
// transaction is durable and the catchpoint tracker has not yet run its postCommitUnlocked; the node that
// goes on is the one that reopens the COPY (loadFromDisk -> recoverFromCrash -> replay).  The original is
// released and thrown away.  When no commit happens this is a plain reload.
func (w *vc14World) opCrash(r uint64) (crashed bool) {
	trackerdb.TrieMemoryConfig = w.cfg.mem
	w.settle()
	w.ml.trackers.mu.Lock()
	w.ml.trackers.lastFlushTime = time.Time{}
	w.ml.trackers.mu.Unlock()
	b := w.blk
	b.mu.Lock()
	b.armed, b.entered, b.release = true, make(chan struct{}), make(chan struct{})
	b.mu.Unlock()
	w.ml.trackers.committedUpTo(basics.Round(r))
	done := make(chan struct{})
	go func() { w.ml.trackers.waitAccountsWriting(); close(done) }()
	select {
	case <-b.entered:
		crashed = true
	case <-done:
	}
	if !crashed {
		b.mu.Lock()
		b.armed = false
		b.mu.Unlock()
		w.opReload()
		return false
	}
	old := w.ml
	// a new log sink: what the original still writes after the release is not the surviving node's
	w.sink = &vc14LogSink{}
	w.log = logging.NewLogger()
	w.log.SetOutput(w.sink)
	w.log.SetLevel(logging.Info)
	w.ml = vc14Fork(w.t, old, w.log)
	close(b.release)
	<-done
	old.Close()
	w.openTrackers(false)
	w.settle()
	return true
}

// vc14Fork: mockLedgerForTracker.fork with a caller-supplied logger
func vc14Fork(t *testing.T, ml *mockLedgerForTracker, log logging.Logger) *mockLedgerForTracker {
	require.False(t, ml.inMemory)
	fn := filepath.Join(t.TempDir(), fmt.Sprintf("fork.%d", crypto.RandUint64()))
	ml.mu.RLock()
	n := &mockLedgerForTracker{inMemory: false, log: log, blocks: append([]blockEntry{}, ml.blocks...),
		deltas: append([]ledgercore.StateDelta{}, ml.deltas...), accts: ml.accts, filename: fn,
		consensusParams: ml.consensusParams, consensusVersion: ml.consensusVersion, trackers: trackerRegistry{log: log}}
	ml.mu.RUnlock()
	ml.dbs.Vacuum(context.Background())
	for _, ext := range []string{"", "-shm", "-wal"} {
		b, err := os.ReadFile(ml.filename + ext)
		if err != nil && ext != "" {
			continue
		}
		require.NoError(t, err)
		require.NoError(t, os.WriteFile(fn+ext, b, 0600))
	}
	dbs, err := db.OpenPair(fn, false)
	require.NoError(t, err)
	dbs.Rdb.SetLogger(log)
	dbs.Wdb.SetLogger(log)
	n.dbs = sqlitedriver.MakeStore(dbs)
	return n
}

// the root of the trie a fresh reader finds in the tracker DB
func (w *vc14World) committedRoot() (root crypto.Digest) {
	err := w.ml.dbs.Transaction(func(ctx context.Context, tx trackerdb.TransactionScope) error {
		mc, err := tx.MakeMerkleCommitter(false)
		if err != nil {
			return err
		}
		trie, err := merkletrie.MakeTrie(mc, w.cfg.mem)
		if err != nil {
			return err
		}
		root, err = trie.RootHash()
		return err
	})
	require.NoError(w.t, err)
	return
}

// observation after a commit / reload: (dbRound #root (first...)? ((R #label) ...))
func (w *vc14World) observe() []interface{} {
	dbRound := uint64(w.ml.trackers.getDbRound())
	root := w.committedRoot()
	first := vL()
	info, exists, err := w.ct.catchpointStore.SelectCatchpointFirstStageInfo(context.Background(), basics.Round(dbRound))
	require.NoError(w.t, err)
	if exists {
		w.firsts[dbRound] = info
		first = vL(dbRound, info.TrieBalancesHash[:], protocol.EncodeReflect(&info.Totals), info.StateProofVerificationHash[:],
			info.OnlineAccountsHash[:], info.OnlineRoundParamsHash[:])
	}
	// first stages that were completed and left behind inside this operation (a recovery followed by the
	// flush of replay): their digests are needed for the oracle labels
	for back := uint64(1); back < w.h.proto.lookback && back <= dbRound; back++ {
		if _, seen := w.firsts[dbRound-back]; !seen {
			if fi, ok, err := w.ct.catchpointStore.SelectCatchpointFirstStageInfo(context.Background(), basics.Round(dbRound-back)); err == nil && ok {
				w.firsts[dbRound-back] = fi
			}
		}
	}
	logs := w.sink.take()
	w.lastLogs = logs
	// the harness (and the model) take every scheduled commit to succeed: a failed tracker commit is a harness error
	require.NotContains(w.t, logs, "Could not commit round", "tracker commit failed: %s", logs[max(0, len(logs)-3000):])
	w.trieErrs += len(vc14TrieErrRe.FindAllString(logs, -1))
	labels := vL()
	for _, m := range vc14LabelRe.FindAllStringSubmatch(logs, -1) {
		rnd, _ := strconv.ParseUint(m[1], 10, 64)
		w.labels[rnd] = m[3]
		labels = append(labels, vL(rnd, []byte(m[3])))
	}
	if len(labels) > 0 {
		require.Equal(w.t, w.ct.GetLastCatchpointLabel(), w.labels[uint64(labels[len(labels)-1].([]interface{})[0].(uint64))])
	}
	return vL(dbRound, root[:], first, labels)
}

// ---------- schedules ----------
// style 0: commit after every block; 1: every k blocks; 2: random rounds, some far behind; 3: long
// gaps and reloads; 4: lazy flushes most of which are interrupted by a power loss (k ops); the last commit of every style brings the DB to the end of the history
func vc14RunLedger(t *testing.T, r *vRand, h *vc14History, cfg vc14Cfg, style int, script []interface{}, stats map[string]int) (*vc14World, []interface{}) {
	w := vc14Open(t, h, cfg)
	ops := vL()
	n := len(h.blocks)
	do := func(op []interface{}) {
		switch string(op[0].(vSym)) {
		case "b":
			w.opBlock()
			ops = append(ops, vL(vSym("b")))
		case "c":
			w.opCommit(op[1].(uint64))
			ops = append(ops, vL(vSym("c"), op[1], w.observe()))
			stats["op_commit"]++
		case "r":
			w.opReload()
			ops = append(ops, vL(vSym("r"), w.observe()))
			stats["op_reload"]++
		case "k":
			before := uint64(w.ml.trackers.getDbRound())
			if w.opCrash(op[1].(uint64)) {
				stats["op_crash_in_commit"]++
				// did the interrupted commit go PAST a catchpoint round?
				after := uint64(w.ml.trackers.getDbRound())
				for R := before + 1; R < after; R++ {
					if R%w.cfg.interval == 0 && R > w.h.proto.lookback {
						stats["op_crash_spanning_catchpoint"]++
						break
					}
				}
			} else {
				stats["op_crash_no_commit"]++
			}
			ops = append(ops, vL(vSym("k"), op[1], w.observe()))
		}
	}
	if script != nil {
		for _, op := range script {
			do(op.([]interface{}))
		}
		return w, ops
	}
	k := 2 + r.Intn(5)
	for i := 1; i <= n; i++ {
		do(vL(vSym("b")))
		latest := uint64(i)
		switch style {
		case 0:
			do(vL(vSym("c"), latest))
		case 1:
			if i%k == 0 {
				do(vL(vSym("c"), latest))
			}
		case 2:
			if r.Intn(3) == 0 {
				do(vL(vSym("c"), uint64(1+r.Intn(i))))
			}
			if r.Intn(9) == 0 {
				do(vL(vSym("r")))
			}
		case 3:
			if r.Intn(7) == 0 {
				do(vL(vSym("c"), latest))
			}
			if r.Intn(6) == 0 {
				do(vL(vSym("r")))
			}
		default: // power losses: lazy flushes (they run past catchpoint rounds), every other one interrupted
			if i%k == 0 || r.Intn(5) == 0 {
				if r.Intn(3) == 0 {
					do(vL(vSym("c"), latest))
				} else {
					do(vL(vSym("k"), latest))
				}
			}
		}
	}
	do(vL(vSym("c"), uint64(n)))
	return w, ops
}

// ---------- case emission ----------
func (h *vc14History) caseTerm(hashing int, flag string, ledgers []interface{}, worlds []*vc14World) []interface{} {
	gents := vL()
	for a, b := range h.states[0].acct {
		gents = append(gents, vL(vL(0, a[:], 0), vc14AcctVal(a, b)))
	}
	sort.Slice(gents, func(i, j int) bool { return vT(gents[i]) < vT(gents[j]) })
	// the digests a first stage at round r records: as observed (spec_ok compares the ledgers with each other)
	extras := map[uint64][3][]byte{}
	for _, w := range worlds {
		for r, f := range w.firsts {
			if _, ok := extras[r]; !ok {
				extras[r] = [3][]byte{f.StateProofVerificationHash[:], f.OnlineAccountsHash[:], f.OnlineRoundParamsHash[:]}
			}
		}
	}
	blocks := vL()
	for i := range h.blocks {
		rnd := uint64(i + 1)
		t := h.blocks[i].totals
		ex := extras[rnd]
		blocks = append(blocks, vL(h.digests[rnd][:], protocol.EncodeReflect(&t), vL(ex[0], ex[1], ex[2]), h.modTerm[rnd]))
	}
	oracle := vL()
	for r := uint64(0); r <= uint64(len(h.blocks)); r++ {
		lv := vL()
		for _, l := range h.leaves[r] {
			lv = append(lv, l)
		}
		oracle = append(oracle, vL(r, h.roots[r][:], lv))
	}
	// oracle labels: every catchpoint round whose first-stage digests are known
	olabels := vL()
	lb := h.proto.lookback
	for R := lb + 1; R <= uint64(len(h.blocks)); R++ {
		ex, ok := extras[R-lb]
		if !ok {
			continue
		}
		var sp, on, orp crypto.Digest
		copy(sp[:], ex[0])
		copy(on[:], ex[1])
		copy(orp[:], ex[2])
		bh, root := h.digests[R], h.roots[R-lb]
		var maker ledgercore.CatchpointLabelMaker
		if h.proto.nx == 3 {
			maker = ledgercore.MakeCatchpointLabelMakerCurrent(basics.Round(R), &bh, &root, h.totalsAt(R-lb), &sp, &on, &orp)
		} else {
			maker = ledgercore.MakeCatchpointLabelMakerV7(basics.Round(R), &bh, &root, h.totalsAt(R-lb), &sp)
		}
		olabels = append(olabels, vL(R, []byte(ledgercore.MakeLabel(maker))))
	}
	gt := h.gtotals
	return vL(vSym("c14"), hashing, vSym(flag), vL(h.proto.lookback, h.proto.nx, 1),
		vL(protocol.EncodeReflect(&gt), gents), blocks, oracle, olabels, ledgers)
}

func vc14LedgerTerm(cfg vc14Cfg, ops []interface{}) []interface{} {
	return vL(vL(cfg.interval, cfg.acctLookback, cfg.tracking, cfg.memID), ops)
}

func vc14RandCfg(r *vRand, lookback uint64) vc14Cfg {
	ivs := []uint64{2, 3, 4, 5, 6, 8, 12}
	id := r.Intn(len(vc14MemConfigs))
	return vc14Cfg{interval: ivs[r.Intn(len(ivs))], acctLookback: uint64(r.Intn(4)), tracking: int64(1 + r.Intn(2)), mem: vc14MemConfigs[id], memID: id}
}

func TestVerifC14(t *testing.T) {
	protos, undo := vc14InstallProtos()
	defer undo()
	saved := trackerdb.TrieMemoryConfig
	defer func() { trackerdb.TrieMemoryConfig = saved }()
	out := vOpen("cases_c14.txt")
	defer out.Close()
	stats := map[string]int{}
	r := vNewRand(0xc14)
	nh := vEnvInt("VERIF_C14_HIST", 10)
	nr := vEnvInt("VERIF_C14_ROUNDS", 28)
	hashEvery := vEnvInt("VERIF_C14_HASH_EVERY", 4)
	nledgers := vEnvInt("VERIF_C14_LEDGERS", 4)

	if os.Getenv("VERIF_C14_REPLAY") != "0" {
		vc14Replay(t, out, protos, stats)
	}
	for i := 0; i < nh; i++ {
		proto := protos[r.Intn(len(protos))]
		h := vc14GenHistory(r, proto, nr/2+r.Intn(nr/2+1), stats)
		var ledgers []interface{}
		var worlds []*vc14World
		for j := 0; j < nledgers; j++ {
			cfg := vc14RandCfg(r, proto.lookback)
			if j == 0 { // the reference node: production trie configuration, eager commits
				cfg.mem, cfg.memID = vc14MemConfigs[0], 0
			}
			style := j % 4
			if j == nledgers-1 && os.Getenv("VERIF_C14_CRASH") != "0" { // the node that loses power
				cfg.crash, cfg.tracking, style = true, 1, 4
				if cfg.interval > 6 {
					cfg.interval = 4
				}
			}
			w, ops := vc14RunLedger(t, r, h, cfg, style, nil, stats)
			ledgers = append(ledgers, vc14LedgerTerm(cfg, ops))
			worlds = append(worlds, w)
			stats["labels"] += len(w.labels)
			stats["first_stages"] += len(w.firsts)
			stats["trie_errors_logged"] += w.trieErrs
			stats[fmt.Sprintf("memcfg_%d", cfg.memID)]++
			stats[fmt.Sprintf("tracking_%d", cfg.tracking)]++
		}
		hashing := 0
		if hashEvery > 0 && i%hashEvery == 0 {
			hashing = 1
		}
		out.Case(h.caseTerm(hashing, "gen", ledgers, worlds)...)
		for _, w := range worlds {
			w.close()
		}
		stats["histories"]++
		stats["rounds"] += len(h.blocks)
	}
	st := map[string]interface{}{}
	for k, v := range stats {
		st[k] = v
	}
	vStats(st)
}

// ---------- replay of the model's witness label_schedule_dependent_refuted ----------
// boxes ("ab","c") and ("a","bc") of app 7 are created in round 1, the first is deleted in round 2;
// CatchpointLookback 2, interval 4: the first stage of catchpoint round 4 is round 2.
// ledger A commits round 1 and round 2 separately, ledger B commits them together.
func vc14Replay(t *testing.T, out *vOut, protos []vc14Proto, stats map[string]int) {
	for _, proto := range protos {
		if proto.lookback != 2 {
			continue
		}
		h := &vc14History{proto: proto, genesis: map[basics.Address]basics.AccountData{}}
		cur := map[basics.Address]ledgercore.AccountData{}
		for i := 0; i < 3; i++ {
			ad := basics.AccountData{MicroAlgos: basics.MicroAlgos{Raw: uint64(1000000 * (i + 1))}}
			h.genesis[vc14Addr(uint64(i+1))] = ad
			cur[vc14Addr(uint64(i+1))] = ledgercore.ToAccountData(ad)
		}
		h.gtotals = vc14Totals(cur)
		k1, k2 := vc14BoxKey(7, "ab"), vc14BoxKey(7, "a")
		pay := func(i uint64, amt uint64) vc14Mod {
			x := cur[vc14Addr(i)]
			x.MicroAlgos.Raw = amt
			cur[vc14Addr(i)] = x
			return vc14Mod{class: 0, addr: vc14Addr(i), acct: x}
		}
		mk := func(mods ...vc14Mod) vc14Block {
			b := vc14Block{mods: mods, totals: vc14Totals(cur)}
			b.seed[0] = byte(len(h.blocks) + 1)
			return b
		}
		h.blocks = append(h.blocks, mk(vc14Mod{class: 2, key: k1, data: []byte("c")}, vc14Mod{class: 2, key: k2, data: []byte("bc")}))
		h.blocks = append(h.blocks, mk(vc14Mod{class: 2, key: k1, data: nil, old: []byte("c")}))
		h.blocks = append(h.blocks, mk(pay(1, 7000000)))
		h.blocks = append(h.blocks, mk(pay(2, 8000000)))
		h.oracle()
		b, c := vL(vSym("b")), func(r uint64) []interface{} { return vL(vSym("c"), r) }
		scripts := [][]interface{}{
			{b, c(1), b, c(2), b, b, c(4)},
			{b, b, c(2), b, b, c(4)},
		}
		var ledgers []interface{}
		var worlds []*vc14World
		for j, sc := range scripts {
			cfg := vc14Cfg{interval: 4, acctLookback: 0, tracking: int64(1 + j), mem: vc14MemConfigs[0], memID: 0}
			w, ops := vc14RunLedger(t, nil, h, cfg, 0, sc, stats)
			ledgers = append(ledgers, vc14LedgerTerm(cfg, ops))
			worlds = append(worlds, w)
			stats["replay_trie_errors_logged"] += w.trieErrs
		}
		if worlds[0].labels[4] != worlds[1].labels[4] {
			stats["replay_labels_differ"]++
		} else {
			stats["replay_labels_equal"]++
		}
		out.Case(h.caseTerm(1, "replay", ledgers, worlds)...)
		for _, w := range worlds {
			w.close()
		}
	}
}
