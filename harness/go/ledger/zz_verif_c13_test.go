//go:build verif

package ledger

// C13 harness: the agreement-facing view of the onlineAccounts tracker on a real Ledger (real
// evaluator, in-memory SQLite trackers, scripted commits and reloads).  One case line per history:
//
//  (onl (unit maxBalLookback excludeExpired spExcludeRewards cacheMax) supply0
//       ((addr st malgos rbase vid vfirst vlast vdil elig lastProposed lastHeartbeat) ...)   genesis
//       (op ...))
//    (b (acct ...) supply level)     block added: StateDelta.Accts (all fields the tracker reads),
//                                    StateDelta.Totals.Online.Money, Totals.RewardsLevel
//    (c dbRound lowestRound)         scripted tracker commit: DB round afterwards, voters' lowestRound
//    (r)                             reloadLedger
//    (l rnd addr obs)                Ledger.LookupAgreement; obs = (ok money vid vfirst vlast vdil elig lp lh) | (err)
//    (k rnd voteRnd obs)             Ledger.OnlineCirculation; obs = (ok n) | (err)
//    (t rnd voteRnd n level obs)     onlineAccounts.TopOnlineAccounts; obs = (ok ((addr malgos rbase norm vfirst vlast vid) ...) total) | (err)
//  addr = order-preserving number of the address (byte order = numeric order); vid = tag of the
//  (VoteID, SelectionID, StateProofID) triple, 0 = all empty.

import (
	"encoding/binary"
	"fmt"
	"io"
	"testing"

	"github.com/algorand/go-algorand/crypto"
	"github.com/algorand/go-algorand/crypto/merklesignature"
	"github.com/algorand/go-algorand/data/basics"
	"github.com/algorand/go-algorand/data/txntest"
	"github.com/algorand/go-algorand/ledger/ledgercore"
	"github.com/algorand/go-algorand/logging"
	"github.com/algorand/go-algorand/protocol"
)

type vc13Triple struct {
	v  crypto.OneTimeSignatureVerifier
	s  crypto.VRFVerifier
	sp merklesignature.Commitment
}

type vc13Hist struct {
	w       *vlhWorld
	ops     []interface{}
	tags    map[vc13Triple]uint64
	spTags  map[merklesignature.Commitment]uint64
	levels  map[basics.Round]uint64
	nAccts  int
	nextNew int
	maxBal  uint64
}

func vc13ID(a basics.Address) uint64 {
	switch a {
	case vlhSink:
		return 1<<40 + 1
	case vlhPool:
		return 1<<40 + 2
	}
	return binary.BigEndian.Uint64(a[8:16])
}

func (h *vc13Hist) tag(v crypto.OneTimeSignatureVerifier, s crypto.VRFVerifier, sp merklesignature.Commitment) uint64 {
	tr := vc13Triple{v, s, sp}
	if tr == (vc13Triple{}) {
		return 0
	}
	if t, ok := h.tags[tr]; ok {
		return t
	}
	t := uint64(len(h.tags) + 1)
	h.tags[tr] = t
	if !sp.IsEmpty() {
		h.spTags[sp] = t
	}
	return t
}

func (h *vc13Hist) acct(a basics.Address, d ledgercore.AccountData) []interface{} {
	return vL(vc13ID(a), uint64(d.Status), d.MicroAlgos.Raw, d.RewardsBase,
		h.tag(d.VoteID, d.SelectionID, d.StateProofID), uint64(d.VoteFirstValid), uint64(d.VoteLastValid), d.VoteKeyDilution,
		d.IncentiveEligible, uint64(d.LastProposed), uint64(d.LastHeartbeat))
}

func (h *vc13Hist) opBlock(vb *ledgercore.ValidatedBlock) {
	delta := vb.Delta()
	mods := make([]interface{}, 0, delta.Accts.Len())
	for i := 0; i < delta.Accts.Len(); i++ {
		addr, d := delta.Accts.GetByIdx(i)
		h.w.id(addr)
		mods = append(mods, h.acct(addr, d))
	}
	h.levels[vb.Block().Round()] = delta.Totals.RewardsLevel
	h.ops = append(h.ops, vL(vSym("b"), mods, delta.Totals.Online.Money.Raw, delta.Totals.RewardsLevel))
}

func (h *vc13Hist) opLookup(rnd basics.Round, a basics.Address) {
	d, err := h.w.l.LookupAgreement(rnd, a)
	var obs []interface{}
	if err != nil {
		obs = vL(vSym("err"))
		h.w.st["lookup_err"]++
	} else {
		obs = vL(vSym("ok"), d.MicroAlgosWithRewards.Raw, h.tag(d.VoteID, d.SelectionID, d.StateProofID),
			uint64(d.VoteFirstValid), uint64(d.VoteLastValid), d.VoteKeyDilution, d.IncentiveEligible,
			uint64(d.LastProposed), uint64(d.LastHeartbeat))
		h.w.st["lookup_ok"]++
		if d.MicroAlgosWithRewards.Raw != 0 {
			h.w.st["lookup_online"]++
		}
	}
	h.ops = append(h.ops, vL(vSym("l"), uint64(rnd), vc13ID(a), obs))
}

func (h *vc13Hist) opCirc(rnd, voteRnd basics.Round) {
	c, err := h.w.l.OnlineCirculation(rnd, voteRnd)
	var obs []interface{}
	if err != nil {
		obs = vL(vSym("err"))
		h.w.st["circ_err"]++
	} else {
		obs = vL(vSym("ok"), c.Raw)
		h.w.st["circ_ok"]++
	}
	h.ops = append(h.ops, vL(vSym("k"), uint64(rnd), uint64(voteRnd), obs))
}

func (h *vc13Hist) opTop(rnd, voteRnd basics.Round, n uint64) {
	level := h.levels[rnd]
	proto := h.w.proto
	top, total, err := h.w.l.acctsOnline.TopOnlineAccounts(rnd, voteRnd, n, &proto, level)
	var obs []interface{}
	if err != nil {
		obs = vL(vSym("err"))
		h.w.st["top_err"]++
	} else {
		lst := make([]interface{}, 0, len(top))
		for _, oa := range top {
			lst = append(lst, vL(vc13ID(oa.Address), oa.MicroAlgos.Raw, oa.RewardsBase, oa.NormalizedOnlineBalance,
				uint64(oa.VoteFirstValid), uint64(oa.VoteLastValid), h.spTags[oa.StateProofID]))
		}
		obs = vL(vSym("ok"), lst, total.Raw)
		h.w.st["top_ok"]++
		h.w.st[fmt.Sprintf("top_len_%d", min(len(top), 6))]++
	}
	h.ops = append(h.ops, vL(vSym("t"), uint64(rnd), uint64(voteRnd), n, level, obs))
}

// observe a round: agreement data of every known address, circulation for several vote rounds,
// the top voters
func (h *vc13Hist) observe(rnd basics.Round, full bool) {
	r := h.w.rnd
	for _, a := range h.w.addrs {
		if full || r.Intn(3) == 0 {
			h.opLookup(rnd, a)
		}
	}
	vrs := []basics.Round{rnd + basics.Round(h.maxBal), rnd + 1, rnd + basics.Round(r.Intn(40))}
	for _, vr := range vrs {
		h.opCirc(rnd, vr)
	}
	if full || r.Intn(2) == 0 {
		ns := []uint64{0, 1, 2, 3, 100}
		h.opTop(rnd, vrs[r.Intn(len(vrs))], ns[r.Intn(len(ns))])
	}
}

// every round that can still be served (and one on each side)
func (h *vc13Hist) observeAll() {
	lat := h.w.l.Latest()
	lo := basics.Round(0)
	span := basics.Round(h.maxBal) + basics.Round(h.w.l.Latest()-h.w.dbRound()) + 2
	if lat > span {
		lo = lat - span
	}
	if span > 24 { // long lookback (320): sample
		for i := 0; i < 10; i++ {
			h.observe(lo+basics.Round(h.w.rnd.Intn(int(lat-lo)+1)), false)
		}
		h.observe(h.w.dbRound(), true)
		h.observe(lat, true)
		h.observe(lat+1, false)
		return
	}
	for r := lo; r <= lat+1; r++ {
		h.observe(r, r == h.w.dbRound() || r+1 == h.w.dbRound() || h.w.rnd.Intn(3) == 0)
	}
}

func vc13History(t *testing.T, out *vOut, r *vRand, hno int, st map[string]int) {
	unit := uint64(1_000_000)
	if r.Intn(4) == 0 {
		unit = 1000
	}
	maxBals := []uint64{4, 6, 8, 16, 320}
	maxBal := maxBals[r.Intn(len(maxBals))]
	exclude := r.Intn(5) != 0
	cv := vlhProto(vlhProtoOpts{RewardUnit: unit, RefreshInterval: uint64(3 + r.Intn(6)), MaxBalLookback: maxBal, SetExclude: true, ExcludeExpired: exclude})
	st[fmt.Sprintf("maxbal_%d", maxBal)]++
	st[fmt.Sprintf("exclude_%v", exclude)]++

	n := 5 + r.Intn(6)
	accts := map[basics.Address]basics.AccountData{}
	var order []basics.Address
	dominant := false
	for i := 0; i < n; i++ {
		a := vlhAddr(hno*1000 + i)
		var d basics.AccountData
		d.MicroAlgos.Raw = uint64(1+r.Intn(20)) * 100_000_000_000
		if r.Intn(3) != 0 {
			d.MicroAlgos.Raw += uint64(r.Intn(1_000_000_000)) // otherwise: ties in the normalized balance
		}
		switch r.Intn(5) {
		case 0, 1, 2:
			d.Status = basics.Online
			d.VoteLastValid = basics.Round(3 + r.Intn(40))
			if r.Intn(3) == 0 {
				d.VoteLastValid = 100000
			}
			d.VoteKeyDilution = 100
			d.VoteID[0], d.SelectionID[0], d.StateProofID[0] = byte(i+1), byte(i+1), byte(i+1)
		case 3:
			d.Status = basics.NotParticipating
		default:
			d.Status = basics.Offline
		}
		if i == 0 && r.Intn(2) == 0 { // a dominant, incentive-eligible voter: suspension candidate
			d.Status = basics.Online
			d.MicroAlgos.Raw = 50_000_000_000_000
			d.VoteLastValid = 100000
			d.VoteKeyDilution = 100
			d.VoteID[0], d.SelectionID[0], d.StateProofID[0] = 1, 1, 1
			dominant = true
		}
		accts[a] = d
		order = append(order, a)
	}
	var sink, pool basics.AccountData
	sink.Status, pool.Status = basics.NotParticipating, basics.NotParticipating
	sink.MicroAlgos.Raw = uint64(1+r.Intn(1000)) * 1_000_000
	pool.MicroAlgos.Raw = uint64(1+r.Intn(1000)) * 1_000_000_000_000
	accts[vlhSink], accts[vlhPool] = sink, pool

	lru := r.Intn(4) == 0
	reloadsLeft := 1000
	if lru {
		reloadsLeft = 1
		st["histories_with_lru"]++
	}
	w := vlhOpen(t, r, cv, order, accts, lru, st)
	defer w.close()
	h := &vc13Hist{w: w, tags: map[vc13Triple]uint64{}, spTags: map[merklesignature.Commitment]uint64{},
		levels: map[basics.Round]uint64{0: 0}, nAccts: n, nextNew: hno*1000 + 500, maxBal: maxBal}
	var genesis []interface{}
	for _, a := range w.addrs {
		genesis = append(genesis, h.acct(a, ledgercore.ToAccountData(accts[a])))
	}
	tot0, err := w.l.Totals(0)
	if err != nil {
		t.Fatal(err)
	}
	h.observeAll()

	rounds := vEnvInt("VERIF_C13_ROUNDS", 30)
	rounds = rounds/2 + r.Intn(rounds/2+1)
	for rd := 0; rd < rounds; rd++ {
		var txs []*txntest.Txn
		ntx := r.Intn(4)
		if r.Intn(5) == 0 {
			ntx = 0
		}
		if rd == 0 && dominant {
			// the dominant voter pays the go-online fee: incentive eligible, never proposes or
			// heartbeats afterwards => the evaluator suspends it once it has been absent too long
			v, s, sp := w.voteKeys()
			txs = append(txs, &txntest.Txn{Type: protocol.KeyRegistrationTx, Sender: w.addrs[0], VotePK: v, SelectionPK: s, StateProofPK: sp,
				VoteFirst: 1, VoteLast: 100000, VoteKeyDilution: 100, Fee: w.proto.Payouts.GoOnlineFee})
		}
		for j := 0; j < ntx; j++ {
			snd := w.addrs[r.Intn(h.nAccts)]
			if dominant && snd == w.addrs[0] {
				continue
			}
			if r.Intn(6) == 0 && len(w.addrs) > h.nAccts+2 {
				snd = w.addrs[h.nAccts+2+r.Intn(len(w.addrs)-h.nAccts-2)]
			}
			switch k := r.Intn(20); {
			case k < 5:
				rcv := w.addrs[r.Intn(len(w.addrs))]
				txs = append(txs, &txntest.Txn{Type: protocol.PaymentTx, Sender: snd, Receiver: rcv, Amount: uint64(r.Intn(50_000_000_000))})
			case k < 7:
				rcv := vlhAddr(h.nextNew)
				h.nextNew++
				txs = append(txs, &txntest.Txn{Type: protocol.PaymentTx, Sender: snd, Receiver: rcv, Amount: uint64(1_000_000 + r.Intn(30_000_000_000))})
			case k < 8:
				txs = append(txs, &txntest.Txn{Type: protocol.PaymentTx, Sender: snd, Receiver: w.addrs[r.Intn(len(w.addrs))],
					CloseRemainderTo: w.addrs[r.Intn(len(w.addrs))]})
			case k < 15: // go online / renew keys
				v, s, sp := w.voteKeys()
				cur := w.l.Latest() + 1
				last := cur + basics.Round(1+r.Intn(12))
				if r.Intn(3) == 0 {
					last = cur + 10000
				}
				first := cur
				if r.Intn(4) == 0 && cur > 3 {
					first = cur - basics.Round(r.Intn(3))
				}
				tx := &txntest.Txn{Type: protocol.KeyRegistrationTx, Sender: snd, VotePK: v, SelectionPK: s, StateProofPK: sp,
					VoteFirst: first, VoteLast: last, VoteKeyDilution: uint64(50 + r.Intn(100))}
				if r.Intn(3) == 0 {
					tx.Fee = w.proto.Payouts.GoOnlineFee
				}
				txs = append(txs, tx)
			case k < 18:
				txs = append(txs, &txntest.Txn{Type: protocol.KeyRegistrationTx, Sender: snd})
			default:
				txs = append(txs, &txntest.Txn{Type: protocol.KeyRegistrationTx, Sender: snd, Nonparticipation: true})
			}
		}
		var prop *basics.Address
		if r.Intn(3) == 0 {
			p := w.addrs[1+r.Intn(h.nAccts-1)] // never the dominant account 0
			prop = w.proposerOK(p, txs)
		}
		vb := w.addBlock(txs, prop)
		h.opBlock(vb)
		st["blocks"]++
		if len(vb.Block().ExpiredParticipationAccounts) > 0 {
			st["blocks_with_expired"]++
		}
		if len(vb.Block().AbsentParticipationAccounts) > 0 {
			st["blocks_with_absent"]++
		}
		lat := w.l.Latest()
		h.observe(lat, r.Intn(3) == 0)
		if lat > basics.Round(maxBal) && r.Intn(2) == 0 {
			h.observe(lat-basics.Round(maxBal), false) // what agreement asks for
		}
		switch k := r.Intn(12); {
		case k < 4:
			lb := basics.Round(r.Intn(6))
			if r.Intn(4) == 0 {
				lb = 0
			}
			before := w.dbRound()
			after, lowest := w.commit(lb)
			h.ops = append(h.ops, vL(vSym("c"), uint64(after), uint64(lowest)))
			st["commits"]++
			if after > before {
				st[fmt.Sprintf("commit_offset_%d", min(uint64(after-before), 5))]++
			} else {
				st["commit_noop"]++
			}
			h.observeAll()
		case k < 6 && reloadsLeft > 0:
			reloadsLeft--
			w.reload()
			h.ops = append(h.ops, vL(vSym("r")))
			st["reloads"]++
			h.observeAll()
		}
	}
	h.observeAll()
	out.Case(vSym("onl"), vL(unit, maxBal, exclude, w.proto.StateProofExcludeTotalWeightWithRewards, onlineAccountsCacheMaxSize),
		tot0.Online.Money.Raw, genesis, h.ops)
	st["histories"]++
}

// two scripted histories: the replay witnesses of the recorded findings (see C13 props)
func vc13Scripted(t *testing.T, out *vOut, r *vRand, kind int, st map[string]int) {
	mk := func(status basics.Status, algos uint64, vlast basics.Round, key byte, elig bool) basics.AccountData {
		var d basics.AccountData
		d.Status = status
		d.MicroAlgos.Raw = algos
		if status == basics.Online {
			d.VoteLastValid = vlast
			d.VoteKeyDilution = 100
			d.VoteID[0], d.SelectionID[0], d.StateProofID[0] = key, key, key
			d.IncentiveEligible = elig
		}
		return d
	}
	exclude := kind == 1
	unit := uint64(1_000_000)
	if kind == 2 {
		unit = 1000
	}
	maxBal := uint64(8)
	cv := vlhProto(vlhProtoOpts{RewardUnit: unit, RefreshInterval: 5, MaxBalLookback: maxBal, SetExclude: true, ExcludeExpired: exclude})
	a0, a1, a2 := vlhAddr(900001), vlhAddr(900002), vlhAddr(900003)
	accts := map[basics.Address]basics.AccountData{}
	if kind == 1 {
		// genesis_incentive_fields_dropped: a0 is incentive eligible in the genesis allocation
		accts[a0] = mk(basics.Online, 3_000_000_000_000, 100000, 1, true)
		accts[a1] = mk(basics.Online, 2_000_000_000_000, 100000, 2, false)
	} else {
		// top_total_stale_invalid_legacy: a0's keys end at 20; it goes offline in round 1
		accts[a0] = mk(basics.Online, 1_100_000_000_000, 20, 1, false)
		accts[a1] = mk(basics.Online, 50_000_000_000_000, 100000, 2, false)
	}
	accts[a2] = mk(basics.Offline, 900_000_000_000, 0, 0, false)
	var sink, pool basics.AccountData
	sink.Status, pool.Status = basics.NotParticipating, basics.NotParticipating
	sink.MicroAlgos.Raw, pool.MicroAlgos.Raw = 500_000_000, 200_000_000_000_000
	accts[vlhSink], accts[vlhPool] = sink, pool
	w := vlhOpen(t, r, cv, []basics.Address{a0, a1, a2}, accts, false, st)
	defer w.close()
	h := &vc13Hist{w: w, tags: map[vc13Triple]uint64{}, spTags: map[merklesignature.Commitment]uint64{},
		levels: map[basics.Round]uint64{0: 0}, nAccts: 3, maxBal: maxBal}
	var genesis []interface{}
	for _, a := range w.addrs {
		genesis = append(genesis, h.acct(a, ledgercore.ToAccountData(accts[a])))
	}
	tot0, err := w.l.Totals(0)
	if err != nil {
		t.Fatal(err)
	}
	if kind == 1 {
		h.opLookup(0, a0) // served without IncentiveEligible
		h.opLookup(0, a1)
		h.opBlock(w.addBlock([]*txntest.Txn{{Type: protocol.PaymentTx, Sender: a1, Receiver: a2, Amount: 1000}}, nil))
		h.opLookup(1, a0) // still untouched
		h.opBlock(w.addBlock([]*txntest.Txn{{Type: protocol.PaymentTx, Sender: a0, Receiver: a2, Amount: 1000}}, nil))
		h.opLookup(2, a0) // touched: the delta carries the flag
		after, lowest := w.commit(0)
		h.ops = append(h.ops, vL(vSym("c"), uint64(after), uint64(lowest)))
		h.opLookup(2, a0)
		h.opLookup(1, a0)
	} else {
		h.opTop(0, 22, 2)
		h.opBlock(w.addBlock([]*txntest.Txn{{Type: protocol.KeyRegistrationTx, Sender: a0}}, nil))
		h.opBlock(w.addBlock(nil, nil))
		h.opTop(2, 22, 2) // a0 is offline at round 2, yet its stake (DB row of round 0) is subtracted
		after, lowest := w.commit(0)
		h.ops = append(h.ops, vL(vSym("c"), uint64(after), uint64(lowest)))
		h.opTop(2, 22, 2) // after the flush the same query answers the online money of round 2
	}
	out.Case(vSym("onl"), vL(unit, maxBal, exclude, w.proto.StateProofExcludeTotalWeightWithRewards, onlineAccountsCacheMaxSize),
		tot0.Online.Money.Raw, genesis, h.ops)
	st[fmt.Sprintf("scripted_%d", kind)]++
}

func TestVerifC13(t *testing.T) {
	logging.Base().SetOutput(io.Discard)
	out := vOpen("cases_c13.txt")
	defer out.Close()
	st := map[string]int{}
	r := vNewRand(13)
	vc13Scripted(t, out, r, 1, st)
	vc13Scripted(t, out, r, 2, st)
	nh := vEnvInt("VERIF_C13_HIST", 20)
	for i := 0; i < nh; i++ {
		vc13History(t, out, r, i, st)
	}
	m := map[string]interface{}{}
	for k, v := range st {
		m[k] = v
	}
	vStats(m)
}
