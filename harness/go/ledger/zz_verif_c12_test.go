//go:build verif

package ledger

// C12 harness.  Three kinds of case lines (one term per line, cases_c12.txt):
//
//  (raw unit (onM onU offM offU npM npU level) ot (add|del st malgos rbase | rew level) obs)
//      one ledgercore.AccountTotals method call on arbitrary (boundary-heavy) data;
//      obs = (ok (7 numbers) ot') | (panic)
//  (all (7 numbers) (participating all units))        -1 = the call panicked
//  (led unit ((addr st malgos rbase) ...) (op ...))
//      a whole history on a real Ledger (real evaluator, in-memory SQLite trackers):
//      (b level ((addr st malgos rbase) ...) (7 numbers))   block added: header RewardsLevel,
//                                                           StateDelta.Accts, StateDelta.Totals
//      (c dbRound)                                          scripted tracker commit; DB round after
//      (r)                                                  reloadLedger
//      (q rnd (ok (7 numbers))|(err) ((addr st malgosWithRewards malgosWithout) ...))
//                                                           Ledger.Totals(rnd) and Ledger.LookupAccount
//                                                           (rnd, a) for EVERY address of the universe

import (
	"context"
	"fmt"
	"io"
	"testing"

	"github.com/stretchr/testify/require"

	"github.com/algorand/go-algorand/config"
	"github.com/algorand/go-algorand/data/basics"
	"github.com/algorand/go-algorand/data/txntest"
	"github.com/algorand/go-algorand/ledger/ledgercore"
	"github.com/algorand/go-algorand/ledger/store/trackerdb"
	"github.com/algorand/go-algorand/logging"
	"github.com/algorand/go-algorand/protocol"
)

func vc12Totals(t ledgercore.AccountTotals) []interface{} {
	return vL(t.Online.Money.Raw, t.Online.RewardUnits, t.Offline.Money.Raw, t.Offline.RewardUnits,
		t.NotParticipating.Money.Raw, t.NotParticipating.RewardUnits, t.RewardsLevel)
}

func vc12Acct(st, malgos, rbase uint64) ledgercore.AccountData {
	var d ledgercore.AccountData
	d.Status = basics.Status(st)
	d.MicroAlgos.Raw = malgos
	d.RewardsBase = rbase
	return d
}

// one protected method call
func vc12Call(f func()) (panicked bool) {
	defer func() {
		if r := recover(); r != nil {
			panicked = true
		}
	}()
	f()
	return false
}

func vc12Small(r *vRand) uint64 {
	switch r.Intn(4) {
	case 0:
		return uint64(r.Intn(10))
	case 1:
		return uint64(r.Intn(5_000_000))
	case 2:
		return uint64(r.Intn(1 << 30))
	default:
		return r.U64() >> uint(20+r.Intn(40))
	}
}

func vc12Raw(out *vOut, r *vRand, n int, st map[string]int) {
	units := []uint64{1_000_000, 1_000_000, 1_000_000, 1000, 1, 7, 1 << 40}
	for i := 0; i < n; {
		unit := units[r.Intn(len(units))]
		if r.Intn(40) == 0 {
			unit = 0
		}
		var tot ledgercore.AccountTotals
		edgy := r.Intn(3) == 0
		gen := func() uint64 {
			if edgy && r.Intn(3) == 0 {
				return r.Edge64()
			}
			return vc12Small(r)
		}
		tot.Online.Money.Raw, tot.Online.RewardUnits = gen(), gen()
		tot.Offline.Money.Raw, tot.Offline.RewardUnits = gen(), gen()
		tot.NotParticipating.Money.Raw, tot.NotParticipating.RewardUnits = gen(), gen()
		tot.RewardsLevel = vc12Small(r) % 100000
		ot := basics.OverflowTracker{Overflowed: r.Intn(12) == 0}
		steps := 1 + r.Intn(8)
		for s := 0; s < steps; s++ {
			pre, preOt := tot, ot.Overflowed
			var op []interface{}
			var panicked bool
			switch k := r.Intn(10); {
			case k < 4 || k >= 8:
				stv := uint64(r.Intn(3))
				if r.Intn(30) == 0 {
					stv = uint64(3 + r.Intn(3))
				}
				malgos := gen()
				rbase := tot.RewardsLevel
				switch r.Intn(5) {
				case 0:
					rbase = 0
				case 1:
					rbase = tot.RewardsLevel - min(tot.RewardsLevel, uint64(r.Intn(50)))
				case 2:
					rbase = tot.RewardsLevel + uint64(r.Intn(3)) // > level: WithUpdatedRewards panics
				}
				if edgy && r.Intn(6) == 0 {
					rbase = r.Edge64()
				}
				d := vc12Acct(stv, malgos, rbase)
				if k < 4 {
					op = vL(vSym("add"), stv, malgos, rbase)
					panicked = vc12Call(func() { tot.AddAccount(unit, d, &ot) })
					st["raw_add"]++
				} else {
					// mostly delete something that fits
					op = vL(vSym("del"), stv, malgos, rbase)
					panicked = vc12Call(func() { tot.DelAccount(unit, d, &ot) })
					st["raw_del"]++
				}
			default:
				lv := tot.RewardsLevel + uint64(r.Intn(20))
				if r.Intn(8) == 0 {
					lv = gen()
				}
				op = vL(vSym("rew"), lv)
				panicked = vc12Call(func() { tot.ApplyRewards(lv, &ot) })
				st["raw_rew"]++
			}
			var obs []interface{}
			if panicked {
				obs = vL(vSym("panic"))
				tot, ot.Overflowed = pre, preOt
				st["raw_panic"]++
			} else {
				obs = vL(vSym("ok"), vc12Totals(tot), ot.Overflowed)
				if ot.Overflowed && !preOt {
					st["raw_overflow_raised"]++
				}
			}
			out.Case(vSym("raw"), unit, vc12Totals(pre), preOt, op, obs)
			i++
		}
		// the three sums
		p, a, u := int64(-1), int64(-1), int64(-1)
		var pv, av, uv uint64
		if !vc12Call(func() { pv = tot.Participating().Raw }) {
			p = 0
		}
		if !vc12Call(func() { av = tot.All().Raw }) {
			a = 0
		}
		if !vc12Call(func() { uv = tot.RewardUnits() }) {
			u = 0
		}
		f := func(ok int64, v uint64) interface{} {
			if ok < 0 {
				return int64(-1)
			}
			return v
		}
		out.Case(vSym("all"), vc12Totals(tot), vL(f(p, pv), f(a, av), f(u, uv)))
		st["raw_all"]++
		i++
	}
}

// ---- ledger histories ----

type vc12Hist struct {
	w       *vlhWorld
	unit    uint64
	ops     []interface{}
	nAccts  int
	nextNew int
}

func (h *vc12Hist) acctTerm(a basics.Address, d ledgercore.AccountData) []interface{} {
	return vL(h.w.id(a), uint64(d.Status), d.MicroAlgos.Raw, d.RewardsBase)
}

func (h *vc12Hist) opBlock(vb *ledgercore.ValidatedBlock) {
	delta := vb.Delta()
	mods := make([]interface{}, 0, delta.Accts.Len())
	for i := 0; i < delta.Accts.Len(); i++ {
		addr, d := delta.Accts.GetByIdx(i)
		mods = append(mods, h.acctTerm(addr, d))
	}
	h.ops = append(h.ops, vL(vSym("b"), vb.Block().RewardsLevel, mods, vc12Totals(delta.Totals)))
}

func (h *vc12Hist) opQuery(rnd basics.Round) {
	l := h.w.l
	tot, err := l.Totals(rnd)
	if err != nil {
		h.ops = append(h.ops, vL(vSym("q"), uint64(rnd), vL(vSym("err")), vL()))
		h.w.st["q_err"]++
		return
	}
	accts := make([]interface{}, 0, len(h.w.addrs))
	for i, a := range h.w.addrs {
		d, _, without, err := l.LookupAccount(rnd, a)
		require.NoError(h.w.t, err)
		accts = append(accts, vL(i, uint64(d.Status), d.MicroAlgos.Raw, without.Raw))
	}
	h.ops = append(h.ops, vL(vSym("q"), uint64(rnd), vL(vSym("ok"), vc12Totals(tot)), accts))
	h.w.st["q_ok"]++
}

// what the tracker DB holds: the accounttotals row against the accounts of the DB round (read
// through LookupAccount at dbRound, i.e. from the persisted account table)
func (h *vc12Hist) opQueryPersisted() {
	l := h.w.l
	var dbRound basics.Round
	var tot ledgercore.AccountTotals
	err := l.trackerDBs.Snapshot(func(ctx context.Context, tx trackerdb.SnapshotScope) (err error) {
		ar, err := tx.MakeAccountsReader()
		if err != nil {
			return err
		}
		dbRound, err = ar.AccountsRound()
		if err != nil {
			return err
		}
		tot, err = ar.AccountsTotals(ctx, false)
		return err
	})
	require.NoError(h.w.t, err)
	accts := make([]interface{}, 0, len(h.w.addrs))
	for i, a := range h.w.addrs {
		d, _, without, err := l.LookupAccount(dbRound, a)
		require.NoError(h.w.t, err)
		accts = append(accts, vL(i, uint64(d.Status), d.MicroAlgos.Raw, without.Raw))
	}
	h.ops = append(h.ops, vL(vSym("q"), uint64(dbRound), vL(vSym("ok"), vc12Totals(tot)), accts))
	h.w.st["q_persisted"]++
}

// query every servable round, plus one below and one above
func (h *vc12Hist) opQueryAll() {
	db, lat := h.w.dbRound(), h.w.l.Latest()
	if db > 0 {
		h.opQuery(db - 1)
	}
	for r := db; r <= lat; r++ {
		h.opQuery(r)
	}
	h.opQuery(lat + 1)
}

func vc12History(t *testing.T, out *vOut, r *vRand, hno int, st map[string]int) {
	// configuration of the history
	units := []uint64{1_000_000, 1_000_000, 1000, 7}
	unit := units[r.Intn(len(units))]
	refresh := uint64(0)
	if r.Intn(2) == 0 {
		refresh = uint64(3 + r.Intn(6))
	}
	// every 4th history runs with catchpoint tracking on (interval 10, lookback 4: first-stage rounds
	// 6, 16, 26, ...): the catchpoint tracker shortens a flush that crosses such a round AFTER
	// accountUpdates produced its part of the commit task; flushes are large and followed by a reload
	cp := hno%4 == 3
	po := vlhProtoOpts{RewardUnit: unit, RefreshInterval: refresh}
	if cp {
		po.CatchpointLookback = 4
		st["histories_with_catchpoints"]++
	}
	cv := vlhProto(po)
	st[fmt.Sprintf("unit_%d", unit)]++

	n := 5 + r.Intn(6)
	accts := map[basics.Address]basics.AccountData{}
	var order []basics.Address
	var genesis []interface{}
	for i := 0; i < n; i++ {
		a := vlhAddr(hno*100 + i)
		var d basics.AccountData
		d.MicroAlgos.Raw = uint64(1+r.Intn(2000)) * 1_000_000_000
		if r.Intn(3) == 0 {
			d.MicroAlgos.Raw += uint64(r.Intn(1_000_000_000))
		}
		switch r.Intn(5) {
		case 0, 1:
			d.Status = basics.Online
			d.VoteLastValid = basics.Round(5 + r.Intn(60))
			d.VoteKeyDilution = 100
			d.VoteID[0], d.SelectionID[0], d.StateProofID[0] = byte(i+1), byte(i+1), byte(i+1)
		case 2:
			d.Status = basics.NotParticipating
		default:
			d.Status = basics.Offline
		}
		accts[a] = d
		order = append(order, a)
	}
	var sink, pool basics.AccountData
	sink.Status, pool.Status = basics.NotParticipating, basics.NotParticipating
	sink.MicroAlgos.Raw = uint64(1+r.Intn(1000)) * 1_000_000
	pool.MicroAlgos.Raw = uint64(1+r.Intn(1000)) * 1_000_000_000_000
	if r.Intn(4) == 0 {
		pool.MicroAlgos.Raw = 100_000 + uint64(r.Intn(5_000_000)) // rewards (nearly) dry up
	}
	accts[vlhSink], accts[vlhPool] = sink, pool

	lru := r.Intn(4) == 0 && !cp
	reloadsLeft := 1000
	if lru {
		reloadsLeft = 1
		st["histories_with_lru"]++
	}
	w := vlhOpen(t, r, cv, order, accts, lru, st, func(cfg *config.Local) {
		if cp {
			cfg.CatchpointInterval = 10
			cfg.CatchpointTracking = 1
		}
	})
	defer w.close()
	h := &vc12Hist{w: w, unit: unit, nAccts: n, nextNew: hno*100 + 50}
	for _, a := range w.addrs {
		d := accts[a]
		genesis = append(genesis, vL(w.id(a), uint64(d.Status), d.MicroAlgos.Raw, d.RewardsBase))
	}
	h.opQueryAll()

	rounds := vEnvInt("VERIF_C12_ROUNDS", 30)
	rounds = rounds/2 + r.Intn(rounds/2+1)
	if cp && rounds < 28 {
		rounds = 28
	}
	broken := false
	for rd := 0; rd < rounds; rd++ {
		var txs []*txntest.Txn
		ntx := r.Intn(4)
		if r.Intn(5) == 0 {
			ntx = 0 // empty block: only the rewards level moves
		}
		for j := 0; j < ntx; j++ {
			snd := w.addrs[r.Intn(h.nAccts)]
			if r.Intn(6) == 0 && len(w.addrs) > h.nAccts+2 {
				snd = w.addrs[h.nAccts+2+r.Intn(len(w.addrs)-h.nAccts-2)] // an account created later
			}
			switch k := r.Intn(20); {
			case k < 7: // payment to an existing account
				rcv := w.addrs[r.Intn(len(w.addrs))]
				amt := uint64(r.Intn(5_000_000_000))
				if r.Intn(4) == 0 {
					amt = uint64(r.Intn(2_000_000))
				}
				txs = append(txs, &txntest.Txn{Type: protocol.PaymentTx, Sender: snd, Receiver: rcv, Amount: amt})
			case k < 9: // payment creating a new account
				rcv := vlhAddr(h.nextNew)
				h.nextNew++
				amt := uint64(100_000 + r.Intn(3_000_000_000))
				txs = append(txs, &txntest.Txn{Type: protocol.PaymentTx, Sender: snd, Receiver: rcv, Amount: amt})
			case k < 11: // close the account
				rcv := w.addrs[r.Intn(len(w.addrs))]
				txs = append(txs, &txntest.Txn{Type: protocol.PaymentTx, Sender: snd, Receiver: rcv, Amount: uint64(r.Intn(1000)),
					CloseRemainderTo: w.addrs[r.Intn(len(w.addrs))]})
			case k < 15: // go online
				v, s, sp := w.voteKeys()
				cur := w.l.Latest() + 1
				last := cur + basics.Round(1+r.Intn(20))
				if r.Intn(3) == 0 {
					last = cur + 10000
				}
				tx := &txntest.Txn{Type: protocol.KeyRegistrationTx, Sender: snd, VotePK: v, SelectionPK: s, StateProofPK: sp,
					VoteFirst: cur, VoteLast: last, VoteKeyDilution: 100}
				if r.Intn(3) == 0 {
					tx.Fee = w.proto.Payouts.GoOnlineFee // incentive eligible
				}
				txs = append(txs, tx)
			case k < 18: // go offline
				txs = append(txs, &txntest.Txn{Type: protocol.KeyRegistrationTx, Sender: snd})
			default: // become non-participating (irreversible)
				txs = append(txs, &txntest.Txn{Type: protocol.KeyRegistrationTx, Sender: snd, Nonparticipation: true})
			}
		}
		var prop *basics.Address
		if r.Intn(3) == 0 {
			p := w.addrs[r.Intn(h.nAccts)]
			prop = w.proposerOK(p, txs)
		}
		vb := w.addBlock(txs, prop)
		h.opBlock(vb)
		st["blocks"]++
		if len(vb.Block().ExpiredParticipationAccounts) > 0 {
			st["blocks_with_expired"]++
		}
		if len(vb.Block().AbsentParticipationAccounts) > 0 {
			st["blocks_with_absent"]++
		}
		// observe
		lat := w.l.Latest()
		h.opQuery(lat)
		if r.Intn(3) == 0 {
			db := w.dbRound()
			h.opQuery(db + basics.Round(r.Intn(int(lat-db)+1)))
		}
		// schedule
		if cp {
			// one large flush whenever 7 or more rounds are pending, then a reload: what is persisted
			// for the round the flush really ended at is what gets served afterwards
			if db := w.dbRound(); lat-db >= 7 && r.Intn(2) == 0 {
				lb := basics.Round(r.Intn(2))
				after, _ := w.commit(lb)
				h.ops = append(h.ops, vL(vSym("c"), uint64(after)))
				st["commits"]++
				if after < lat-lb {
					st["commit_cut_by_catchpoint"]++
				}
				h.opQueryAll()
				h.opQueryPersisted()
				if err := w.l.reloadLedger(); err != nil {
					// the persisted state cannot even be replayed: the history ends here (the
					// persisted-totals observation above carries the evidence)
					st["reload_failed"]++
					broken = true
					break
				}
				h.ops = append(h.ops, vL(vSym("r")))
				st["reloads"]++
				h.opQueryAll()
			}
			continue
		}
		switch k := r.Intn(12); {
		case k < 3:
			lb := basics.Round(r.Intn(6))
			if r.Intn(4) == 0 {
				lb = 0
			}
			before := w.dbRound()
			after, _ := w.commit(lb)
			h.ops = append(h.ops, vL(vSym("c"), uint64(after)))
			st["commits"]++
			if after > before {
				st[fmt.Sprintf("commit_offset_%d", min(uint64(after-before), 5))]++
			} else {
				st["commit_noop"]++
			}
			h.opQueryAll()
		case k < 5 && reloadsLeft > 0:
			reloadsLeft--
			w.reload()
			h.ops = append(h.ops, vL(vSym("r")))
			st["reloads"]++
			h.opQueryAll()
		}
	}
	if !broken {
		h.opQueryAll()
	}
	out.Case(vSym("led"), unit, genesis, h.ops)
	st["histories"]++
	st[fmt.Sprintf("universe_%d", min(len(w.addrs)/5*5, 30))]++
}

func TestVerifC12(t *testing.T) {
	logging.Base().SetOutput(io.Discard)
	out := vOpen("cases_c12.txt")
	defer out.Close()
	st := map[string]int{}

	r := vNewRand(12)
	vc12Raw(out, r, vEnvInt("VERIF_C12_RAW", 4000), st)

	nh := vEnvInt("VERIF_C12_HIST", 25)
	for i := 0; i < nh; i++ {
		vc12History(t, out, r, i, st)
	}
	m := map[string]interface{}{}
	for k, v := range st {
		m[k] = v
	}
	vStats(m)
}
