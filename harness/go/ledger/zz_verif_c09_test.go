//go:build verif

package ledger

// C09 harness: real process crashes of a real Ledger on on-disk SQLite files.
//
// The parent test (TestVerifC09) generates block histories with the real evaluator on a reference
// in-memory ledger, then drives CHAINS of incarnations of a child process (this test binary
// re-executing itself with VERIF_C09_CHILD set, running TestVerifC09Child): each incarnation
// opens the ledger files of the chain with OpenLedger, continues adding the reference blocks
// after Latest(), and reports its progress on a pipe (fd 3), one line per event:
//
//   O latest dbRound   OpenLedger returned          B r / A r   Ledger.AddBlock(r) is about to be called / returned
//   W r                <-Ledger.Wait(r) fired       F     all blocks added, flushed and committed
//   T0/T1 nb           first / last tracker callback INSIDE the tracker-DB transaction of
//                      trackerRegistry.commitRound (T1: every tracker has written, the
//                      transaction is not yet committed)
//   PC0/PC1 nb         first / last postCommit callback (PC0: transaction committed, no tracker
//                      has updated its memory yet)
//   PU1 nb             last postCommitUnlocked callback (after the catchpoint stages)
//
// The T/PC/PU lines come from two no-op probe trackers that the child appends to the head and the
// tail of Ledger.trackers after OpenLedger (the harness is in-package; /repo is not modified).
// The parent SIGKILLs the child (os.Process.Kill: no deferred functions, no SQLite close)
//   - right after the n-th event of a chosen kind (B A W T0 T1 PC0 PC1 PU1),
//   - after the n-th line of any kind, optionally 0-3 ms later,
//   - at a chosen time after start (kills inside OpenLedger: schema creation, replay, catchpoint
//     recovery, the commit that replay issues).
// When the awaited line is a probe line the child sleeps 40 ms after printing it, so that the kill
// lands exactly at that boundary (inside the tracker transaction / after its commit and before any
// postCommit / ...).  Nothing simulates a crash in-process.
//
// Faults the process SURVIVES (VERIF_C09_FAULT): at the n-th tracker commit of the incarnation the tail
// probe's commitRound callback - inside the tracker transaction, after every real tracker has
// written, before UpdateAccountsRound - returns an error ("err") or panics ("panic"); line FE/FP nb,
// then X when trackerRegistry.commitRound reports the failure.  "blk": a trigger installed in the
// block DB (plain SQL, dropped again a few ms later) makes the INSERT of the second block of a
// two-block batch fail, i.e. the block transaction fails after one successful BlockPut; lines G
// (trigger active, syncer retrying) and H (trigger dropped).  The child then goes on; the parent
// kills it at the fault, some lines later, or lets it finish.  The failed transaction must leave
// nothing behind: the disk is inspected and reopened exactly as after a plain kill.
//
// After every kill the parent looks at what is on disk with plain SQL (block range, tracker DB
// round, catchpoint state rows, catchpoint files) and then reopens the files with OpenLedger,
// compares every block with the reference history, looks every account up at every servable
// round, reads Totals, and closes the ledger cleanly; the next incarnation continues the chain.
// One case line per crash:
//
//   (c09 (L archival cpInterval cpLookback genFiles) (genesis acct ...) (round ...)
//        (prevBlocks added confirmed killkind)
//        (disk  earliest nblocks bad dbRound flag lookback (unfinished ...) (firststage ...)
//               (stored ...) (datafile ...) (cpfile ...) label)
//        (open  ok latest bad dbRound flag lookback (unfinished ...) (firststage ...) (stored ...)
//               (datafile ...) (cpfile ...) label
//               ((rnd (addr algos status extra) ...) ...) ((rnd online offline notpart level) ...)))
//   acct  = (addr algos status extra)         round = ((acct ...) (online offline notpart level))
//
// `round` is the StateDelta of the reference evaluation (account records and totals), so the
// checker recomputes the expected state by folding the deltas and never looks at the crashed
// ledger's own tracker state.

import (
	"bufio"
	"context"
	"database/sql"
	"encoding/binary"
	"errors"
	"fmt"
	"io"
	"os"
	"os/exec"
	"path/filepath"
	"sort"
	"strconv"
	"strings"
	"sync"
	"testing"
	"time"

	"github.com/stretchr/testify/require"

	"github.com/algorand/go-algorand/agreement"
	"github.com/algorand/go-algorand/config"
	"github.com/algorand/go-algorand/crypto"
	"github.com/algorand/go-algorand/data/basics"
	"github.com/algorand/go-algorand/data/bookkeeping"
	"github.com/algorand/go-algorand/data/committee"
	"github.com/algorand/go-algorand/data/transactions"
	"github.com/algorand/go-algorand/data/txntest"
	"github.com/algorand/go-algorand/ledger/ledgercore"
	"github.com/algorand/go-algorand/ledger/store/trackerdb"
	"github.com/algorand/go-algorand/logging"
	"github.com/algorand/go-algorand/protocol"
	"github.com/algorand/go-algorand/util/db"
)

// ---------------------------------------------------------------------------------------------
// configuration shared by parent and child (passed in the environment)

type vc9Cfg struct {
	L          uint64 // MaxAcctLookback
	Archival   bool
	CpInterval uint64 // 0 = catchpoints off
	CpLookback uint64 // consensus CatchpointLookback of the test protocol
	Tracking   int64  // CatchpointTracking
	TxnLife    uint64 // MaxTxnLife of the test protocol (small => non-archival ledgers prune blocks)
	NAcc       int
	Rounds     int
	Seed       uint64
}

func (c vc9Cfg) String() string {
	a := 0
	if c.Archival {
		a = 1
	}
	return fmt.Sprintf("%d,%d,%d,%d,%d,%d,%d,%d,%d", c.L, a, c.CpInterval, c.CpLookback, c.Tracking, c.TxnLife, c.NAcc, c.Rounds, c.Seed)
}

func vc9ParseCfg(s string) (c vc9Cfg) {
	f := strings.Split(s, ",")
	u := func(i int) uint64 { v, _ := strconv.ParseUint(f[i], 10, 64); return v }
	c.L, c.Archival, c.CpInterval, c.CpLookback = u(0), u(1) == 1, u(2), u(3)
	c.Tracking, c.TxnLife, c.NAcc, c.Rounds, c.Seed = int64(u(4)), u(5), int(u(6)), int(u(7)), u(8)
	return
}

func (c vc9Cfg) genFiles() bool {
	lc := c.local()
	return lc.StoresCatchpoints()
}

func (c vc9Cfg) local() config.Local {
	cfg := config.GetDefaultLocal()
	cfg.Archival = c.Archival
	cfg.MaxAcctLookback = c.L
	cfg.CatchpointInterval = c.CpInterval
	cfg.CatchpointTracking = c.Tracking
	if c.CpInterval == 0 {
		cfg.CatchpointTracking = -1
	}
	cfg.CatchpointFileHistoryLength = 1000
	cfg.VerifiedTranscationsCacheSize = 1000
	cfg.TxPoolSize = 1000
	cfg.DisableLedgerLRUCache = true // the 100000-entry pending buffers cost ~1 s per OpenLedger
	return cfg
}

func (c vc9Cfg) proto() protocol.ConsensusVersion {
	name := protocol.ConsensusVersion(fmt.Sprintf("verif-c09-l%d-t%d", c.CpLookback, c.TxnLife))
	if _, ok := config.Consensus[name]; ok {
		return name
	}
	p := config.Consensus[protocol.ConsensusCurrentVersion]
	p.CatchpointLookback = c.CpLookback
	p.EnableCatchpointsWithSPContexts = true
	p.MaxTxnLife = c.TxnLife
	p.ApprovedUpgrades = map[protocol.ConsensusVersion]uint64{}
	config.Consensus[name] = p
	return name
}

func vc9Addr(i int) (a basics.Address) {
	a[0] = 0xc9
	binary.BigEndian.PutUint64(a[8:16], uint64(i)+1)
	a[31] = byte(i*41 + 7)
	return
}

var vc9Sink = func() (a basics.Address) { a[0] = 0xf9; a[1] = 0x01; return }()
var vc9Pool = func() (a basics.Address) { a[0] = 0xf9; a[1] = 0x02; return }()

// universe of addresses: index 1.. = accounts (genesis ones first, then the ones funded later),
// then sink and pool
func (c vc9Cfg) universe() []basics.Address {
	var u []basics.Address
	for i := 0; i < c.NAcc+3; i++ {
		u = append(u, vc9Addr(i))
	}
	return append(u, vc9Sink, vc9Pool)
}

func (c vc9Cfg) initState() ledgercore.InitState {
	accts := map[basics.Address]basics.AccountData{}
	r := vNewRand(c.Seed ^ 0x9e09)
	for i := 0; i < c.NAcc; i++ {
		accts[vc9Addr(i)] = basics.AccountData{MicroAlgos: basics.MicroAlgos{Raw: 50_000_000 + uint64(r.Intn(1000))*1_000_000}, Status: basics.Offline}
	}
	accts[vc9Sink] = basics.AccountData{MicroAlgos: basics.MicroAlgos{Raw: 1_000_000}, Status: basics.NotParticipating}
	accts[vc9Pool] = basics.AccountData{MicroAlgos: basics.MicroAlgos{Raw: 1_000_000}, Status: basics.NotParticipating}
	bal := bookkeeping.MakeTimestampedGenesisBalances(accts, vc9Sink, vc9Pool, 1700000000)
	var genHash crypto.Digest
	genHash[0] = 0xc9
	binary.BigEndian.PutUint64(genHash[8:16], c.Seed)
	genBlock, err := bookkeeping.MakeGenesisBlock(c.proto(), bal, "verif-c09", genHash)
	if err != nil {
		panic(err)
	}
	return ledgercore.InitState{Block: genBlock, Accounts: bal.Balances, GenesisHash: genHash}
}

func vc9QuietLog() logging.Logger {
	log := logging.NewLogger()
	log.SetOutput(io.Discard)
	log.SetLevel(logging.Panic)
	return log
}

func vc9FileLog(path string) logging.Logger {
	log := logging.NewLogger()
	f, err := os.OpenFile(path, os.O_CREATE|os.O_APPEND|os.O_WRONLY, 0644)
	if err != nil {
		return vc9QuietLog()
	}
	log.SetOutput(f)
	log.SetLevel(logging.Warn)
	return log
}

func vc9Extra(d ledgercore.AccountData) uint64 {
	return d.RewardsBase + 3*d.RewardedMicroAlgos.Raw + 1000003*uint64(d.VoteLastValid) + 7*uint64(d.VoteFirstValid) + 11*d.VoteKeyDilution
}

// ---------------------------------------------------------------------------------------------
// reference history (parent only)

type vc9Hist struct {
	cfg    vc9Cfg
	blocks []bookkeeping.Block // blocks[r-1] = round r
	enc    [][]byte            // protocol.Encode of each block
	deltas [][]interface{}     // per round: account records as terms
	totals [][]interface{}     // per round: totals as terms
	gen    []interface{}       // genesis account records
	uni    []basics.Address
	id     map[basics.Address]int
	st     map[string]int
}

func (h *vc9Hist) acctTerm(a basics.Address, d ledgercore.AccountData) interface{} {
	return vL(h.id[a], d.MicroAlgos.Raw, uint64(d.Status), vc9Extra(d))
}

func vc9Generate(t *testing.T, cfg vc9Cfg, st map[string]int) *vc9Hist {
	h := &vc9Hist{cfg: cfg, id: map[basics.Address]int{}, st: st}
	h.uni = cfg.universe()
	for i, a := range h.uni {
		h.id[a] = i + 1
	}
	is := cfg.initState()
	lc := cfg.local()
	lc.MaxAcctLookback = 1 << 30
	lc.CatchpointInterval = 0
	lc.CatchpointTracking = -1
	lc.Archival = true
	l, err := OpenLedger(vc9QuietLog(), fmt.Sprintf("vc9ref-%d", cfg.Seed), true, is, lc)
	require.NoError(t, err)
	defer l.Close()
	for _, a := range h.uni {
		if d, ok := is.Accounts[a]; ok {
			h.gen = append(h.gen, h.acctTerm(a, ledgercore.ToAccountData(d)))
		}
	}
	rnd := vNewRand(cfg.Seed ^ 0xc09c09)
	live := cfg.NAcc // accounts 0..live-1 exist (closed ones may be re-funded)
	var keyCtr uint64
	var note uint64
	for r := 1; r <= cfg.Rounds; r++ {
		ev := nextBlock(t, l)
		ntx := rnd.Intn(4)
		if rnd.Intn(6) == 0 {
			ntx = 0
		}
		for k := 0; k < ntx; k++ {
			tx := &txntest.Txn{}
			s := rnd.Intn(live)
			switch c := rnd.Intn(12); {
			case c < 7:
				tx.Type = protocol.PaymentTx
				tx.Sender = vc9Addr(s)
				tx.Receiver = vc9Addr(rnd.Intn(live))
				tx.Amount = uint64(rnd.Intn(3_000_000))
			case c < 8 && live < cfg.NAcc+3:
				tx.Type = protocol.PaymentTx
				tx.Sender = vc9Addr(s)
				tx.Receiver = vc9Addr(live)
				tx.Amount = 1_000_000 + uint64(rnd.Intn(2_000_000))
				live++
			case c < 9:
				tx.Type = protocol.PaymentTx
				tx.Sender = vc9Addr(s)
				tx.Receiver = vc9Addr(rnd.Intn(live))
				tx.Amount = uint64(rnd.Intn(1000))
				tx.CloseRemainderTo = vc9Addr(rnd.Intn(live))
			case c < 11:
				tx.Type = protocol.KeyRegistrationTx
				tx.Sender = vc9Addr(s)
				keyCtr++
				binary.BigEndian.PutUint64(tx.VotePK[0:8], keyCtr)
				tx.VotePK[31] = 1
				binary.BigEndian.PutUint64(tx.SelectionPK[0:8], keyCtr)
				tx.SelectionPK[31] = 2
				binary.BigEndian.PutUint64(tx.StateProofPK[0:8], keyCtr)
				tx.StateProofPK[63] = 3
				tx.VoteFirst = basics.Round(r)
				tx.VoteLast = basics.Round(r + 1000 + rnd.Intn(100))
				tx.VoteKeyDilution = 100
			default:
				tx.Type = protocol.KeyRegistrationTx // go offline
				tx.Sender = vc9Addr(s)
			}
			note++
			nb := make([]byte, 8)
			binary.BigEndian.PutUint64(nb, note)
			tx.Note = nb
			fillDefaults(t, l, ev, tx)
			grp := []transactions.SignedTxn{tx.SignedTxn()}
			err := ev.TestTransactionGroup(grp)
			if err == nil {
				err = ev.TransactionGroup(transactions.WrapSignedTxnsWithAD(grp)...)
			}
			if err != nil {
				st["txn_rejected"]++
			} else {
				st["txn_"+string(tx.Type)]++
			}
		}
		ub, err := ev.GenerateBlock(nil)
		require.NoError(t, err)
		gvb := ledgercore.MakeValidatedBlock(ub.UnfinishedBlock(), ub.UnfinishedDeltas())
		prp := gvb.Block().BlockHeader.FeeSink
		if l.GenesisProto().Payouts.Enabled {
			gvb = ledgercore.MakeValidatedBlock(gvb.Block().WithProposer(committee.Seed(prp), prp, true), gvb.Delta())
		} else {
			gvb = ledgercore.MakeValidatedBlock(gvb.Block().WithProposer(committee.Seed(prp), basics.Address{}, false), gvb.Delta())
		}
		vvb, err := validateWithoutSignatures(t, l, gvb.Block())
		require.NoError(t, err)
		require.NoError(t, l.AddValidatedBlock(*vvb, agreement.Certificate{}))
		l.WaitForCommit(l.Latest())
		blk := vvb.Block()
		h.blocks = append(h.blocks, blk)
		h.enc = append(h.enc, protocol.Encode(&blk))
		d := vvb.Delta()
		var recs []interface{}
		type ar struct {
			id int
			t  interface{}
		}
		var ars []ar
		for i := 0; i < d.Accts.Len(); i++ {
			a, ad := d.Accts.GetByIdx(i)
			if _, ok := h.id[a]; !ok {
				t.Fatalf("address outside the universe: %v", a)
			}
			ars = append(ars, ar{h.id[a], h.acctTerm(a, ad)})
		}
		sort.Slice(ars, func(i, j int) bool { return ars[i].id < ars[j].id })
		for _, x := range ars {
			recs = append(recs, x.t)
		}
		h.deltas = append(h.deltas, recs)
		tt := d.Totals
		h.totals = append(h.totals, vL(tt.Online.Money.Raw, tt.Offline.Money.Raw, tt.NotParticipating.Money.Raw, tt.RewardsLevel))
		st["delta_accts"] += d.Accts.Len()
	}
	return h
}

func (h *vc9Hist) roundsTerm() []interface{} {
	var out []interface{}
	for i := range h.deltas {
		out = append(out, vL(append([]interface{}{}, h.deltas[i]...), h.totals[i]))
	}
	return out
}

// blocks file read by the child: u32 length + encoded block, per round
func (h *vc9Hist) writeBlocks(path string) error {
	var buf []byte
	for _, e := range h.enc {
		var l [4]byte
		binary.BigEndian.PutUint32(l[:], uint32(len(e)))
		buf = append(buf, l[:]...)
		buf = append(buf, e...)
	}
	return os.WriteFile(path, buf, 0644)
}

func vc9ReadBlocks(path string) ([]bookkeeping.Block, error) {
	b, err := os.ReadFile(path)
	if err != nil {
		return nil, err
	}
	var out []bookkeeping.Block
	for len(b) >= 4 {
		n := int(binary.BigEndian.Uint32(b[:4]))
		var blk bookkeeping.Block
		if err := protocol.Decode(b[4:4+n], &blk); err != nil {
			return nil, err
		}
		out = append(out, blk)
		b = b[4+n:]
	}
	return out, nil
}

// ---------------------------------------------------------------------------------------------
// child process

type vc9Progress struct {
	mu        sync.Mutex
	f         *os.File
	n         int
	pause     int    // line index after which the printing goroutine sleeps (probe lines only)
	pauseKind string // or: the pauseN-th line of this kind
	pauseN    int
	byKind    map[string]int
}

func (p *vc9Progress) line(probe bool, format string, args ...interface{}) {
	p.mu.Lock()
	p.n++
	n := p.n
	ln := fmt.Sprintf(format, args...)
	kind := strings.Fields(ln)[0]
	if p.byKind == nil {
		p.byKind = map[string]int{}
	}
	p.byKind[kind]++
	k := p.byKind[kind]
	fmt.Fprintln(p.f, ln)
	p.mu.Unlock()
	if probe && (n == p.pause || (kind == p.pauseKind && k == p.pauseN)) {
		time.Sleep(40 * time.Millisecond)
	}
}

type vc9Probe struct {
	name    string
	out     *vc9Progress
	fault   string // "err" | "panic": fail the faultN-th commitRound callback
	faultN  int
	commits int
}

func (p *vc9Probe) loadFromDisk(ledgerForTracker, basics.Round) error         { return nil }
func (p *vc9Probe) newBlock(bookkeeping.Block, ledgercore.StateDelta)         {}
func (p *vc9Probe) committedUpTo(r basics.Round) (basics.Round, basics.Round) { return r, 0 }
func (p *vc9Probe) produceCommittingTask(_ basics.Round, _ basics.Round, dcr *deferredCommitRange) *deferredCommitRange {
	return dcr
}
func (p *vc9Probe) prepareCommit(*deferredCommitContext) error { return nil }
func (p *vc9Probe) commitRound(_ context.Context, _ trackerdb.TransactionScope, dcc *deferredCommitContext) error {
	p.out.line(true, "T%s %d", p.name, dcc.newBase())
	p.commits++
	if p.commits == p.faultN {
		switch p.fault {
		case "err":
			p.out.line(false, "FE %d", dcc.newBase())
			return errors.New("verif: injected commitRound error")
		case "panic":
			p.out.line(false, "FP %d", dcc.newBase())
			panic("verif: injected commitRound panic")
		}
	}
	return nil
}
func (p *vc9Probe) postCommit(_ context.Context, dcc *deferredCommitContext) {
	p.out.line(true, "PC%s %d", p.name, dcc.newBase())
}
func (p *vc9Probe) close() {}
func (p *vc9Probe) postCommitUnlocked(_ context.Context, dcc *deferredCommitContext) {
	if p.name == "1" {
		p.out.line(true, "PU%s %d", p.name, dcc.newBase())
	}
}
func (p *vc9Probe) handleUnorderedCommit(*deferredCommitContext)    { p.out.line(false, "U unordered") }
func (p *vc9Probe) handlePrepareCommitError(*deferredCommitContext) { p.out.line(false, "E prepare") }
func (p *vc9Probe) handleCommitError(*deferredCommitContext) {
	if p.name == "1" {
		if p.fault != "" {
			p.out.line(false, "X commit") // the injected failure has been reported by commitRound
		} else {
			p.out.line(false, "E commit")
		}
	}
}
func (p *vc9Probe) clearCommitRoundRetry(context.Context, *deferredCommitContext) {
	p.out.line(false, "U retry")
}

func TestVerifC09Child(t *testing.T) {
	dir := os.Getenv("VERIF_C09_CHILD")
	if dir == "" {
		t.Skip("child entry point of TestVerifC09")
	}
	cfg := vc9ParseCfg(os.Getenv("VERIF_C09_CFG"))
	out := &vc9Progress{f: os.NewFile(3, "progress"), pause: vEnvInt("VERIF_C09_PAUSE", 0),
		pauseKind: os.Getenv("VERIF_C09_PAUSE_KIND"), pauseN: vEnvInt("VERIF_C09_PAUSE_N", 0)}
	blocks, err := vc9ReadBlocks(filepath.Join(dir, "blocks.bin"))
	if err != nil {
		t.Fatal(err)
	}
	is := cfg.initState()
	l, err := OpenLedger(vc9FileLog(filepath.Join(dir, "child.log")), filepath.Join(dir, "led"), false, is, cfg.local())
	if err != nil {
		out.line(false, "E %v", strings.ReplaceAll(err.Error(), "\n", " "))
		t.Fatal(err)
	}
	out.line(false, "O %d %d", l.Latest(), l.trackers.getDbRound())
	if os.Getenv("VERIF_C09_PROBE") != "0" {
		l.trackerMu.Lock()
		l.trackers.mu.Lock()
		tail := &vc9Probe{name: "1", out: out}
		if f := os.Getenv("VERIF_C09_FAULT"); f == "err" || f == "panic" {
			tail.fault, tail.faultN = f, vEnvInt("VERIF_C09_FAULT_N", 1)
		}
		l.trackers.trackers = append(append([]ledgerTracker{&vc9Probe{name: "0", out: out}}, l.trackers.trackers...), tail)
		l.trackers.mu.Unlock()
		l.trackerMu.Unlock()
	}
	rnd := vNewRand(uint64(vEnvInt("VERIF_C09_WSEED", 1)))
	upTo := vEnvInt("VERIF_C09_UPTO", len(blocks))
	blkFaultAt := -1
	if os.Getenv("VERIF_C09_FAULT") == "blk" {
		blkFaultAt = int(l.Latest()) + vEnvInt("VERIF_C09_FAULT_N", 1)
	}
	for r := int(l.Latest()) + 1; r <= upTo && r <= len(blocks); r++ {
		if r == blkFaultAt && r+2 <= len(blocks) && r+2 <= upTo {
			vc9BlockFault(t, l, dir, blocks, r, out)
			r += 2
			continue
		}
		// as if balancesFlushInterval had elapsed (the package's own tests do the same)
		l.trackers.mu.Lock()
		l.trackers.lastFlushTime = time.Time{}
		l.trackers.mu.Unlock()
		out.line(false, "B %d", r) // about to add r: from here on block r may reach the queue and the disk
		if err := l.AddBlock(blocks[r-1], agreement.Certificate{}); err != nil {
			out.line(false, "E addblock %d %v", r, err)
			t.Fatal(err)
		}
		out.line(false, "A %d", r)
		if rnd.Intn(2) == 0 {
			<-l.Wait(basics.Round(r))
			out.line(false, "W %d", r)
		}
	}
	last := l.Latest()
	<-l.Wait(last)
	out.line(false, "W %d", last)
	l.trackers.waitAccountsWriting()
	out.line(false, "F")
	l.Close()
	out.line(false, "C")
}

// vc9BlockFault makes one block transaction of the syncer fail after a successful BlockPut: while a
// second connection holds the block DB's write lock (the syncer's transaction gets SQLITE_BUSY and is
// retried by db.Accessor.AtomicContext) blocks r, r+1, r+2 are added, so that the syncer - which had
// picked up [r] - next picks up the batch [r+1, r+2]; a trigger created under that lock aborts the
// INSERT of r+2.  The batch fails (blockQueue.syncer logs and retries) until the trigger is dropped.
func vc9BlockFault(t *testing.T, l *Ledger, dir string, blocks []bookkeeping.Block, r int, out *vc9Progress) {
	l.WaitForCommit(basics.Round(r - 1))
	acc, err := db.MakeAccessor(filepath.Join(dir, "led.block.sqlite"), false, false)
	if err != nil {
		t.Fatal(err)
	}
	defer acc.Close()
	conn, err := acc.Handle.Conn(context.Background())
	if err != nil {
		t.Fatal(err)
	}
	defer conn.Close()
	ctx := context.Background()
	if _, err = conn.ExecContext(ctx, "BEGIN IMMEDIATE"); err != nil {
		t.Fatal(err)
	}
	_, err = conn.ExecContext(ctx, fmt.Sprintf("CREATE TRIGGER verif_c09_fail BEFORE INSERT ON blocks WHEN NEW.rnd = %d BEGIN SELECT RAISE(ABORT, 'verif: injected block insert failure'); END", r+2))
	if err != nil {
		t.Fatal(err)
	}
	for i := r; i <= r+2; i++ {
		out.line(false, "B %d", i)
		if err := l.AddBlock(blocks[i-1], agreement.Certificate{}); err != nil {
			out.line(false, "E addblock %d %v", i, err)
			t.Fatal(err)
		}
		out.line(false, "A %d", i)
	}
	if _, err = conn.ExecContext(ctx, "COMMIT"); err != nil {
		t.Fatal(err)
	}
	out.line(false, "G %d", r+2)
	time.Sleep(8 * time.Millisecond) // the syncer writes [r], then fails on [r+1, r+2] again and again
	if _, err = conn.ExecContext(ctx, "DROP TRIGGER verif_c09_fail"); err != nil {
		t.Fatal(err)
	}
	out.line(false, "H %d", r+2)
	<-l.Wait(basics.Round(r + 2))
	out.line(false, "W %d", r+2)
}

// ---------------------------------------------------------------------------------------------
// parent: one incarnation

type vc9Kill struct {
	kind  string        // "line" | "kline" | "time" | "none"
	line  int           // kill after this many progress lines (kline: lines of kind lk)
	lk    string        // kline: the kind of line counted
	delay time.Duration // extra delay after the line / absolute time after start
	after int           // kline: kill this many lines after the awaited one
	fault string        // "" | "err" | "panic" | "blk": fault injected in the child
	fN    int
}

type vc9Run struct {
	lines     []string
	killed    bool
	killAfter string // kind of the last line seen before the kill ("" = none yet)
	maxA      int
	maxB      int
	maxW      int
	openLat   int
	done      bool // "C" seen: closed cleanly
	wall      time.Duration
	tOpen     time.Duration // start -> "O" line
	fault     string        // FE / FP / G: the injected fault happened
}

func vc9RunChild(t *testing.T, dir string, cfg vc9Cfg, k vc9Kill, wseed int, upTo int) vc9Run {
	pr, pw, err := os.Pipe()
	require.NoError(t, err)
	cmd := exec.Command(os.Args[0], "-test.run=^TestVerifC09Child$", "-test.count=1")
	cmd.Env = append(os.Environ(), "VERIF_C09_CHILD="+dir, "VERIF_C09_CFG="+cfg.String(),
		fmt.Sprintf("VERIF_C09_WSEED=%d", wseed), fmt.Sprintf("VERIF_C09_UPTO=%d", upTo))
	if k.kind == "line" {
		cmd.Env = append(cmd.Env, fmt.Sprintf("VERIF_C09_PAUSE=%d", k.line))
	}
	if k.kind == "kline" {
		cmd.Env = append(cmd.Env, "VERIF_C09_PAUSE_KIND="+k.lk, fmt.Sprintf("VERIF_C09_PAUSE_N=%d", k.line))
	}
	if k.fault != "" {
		cmd.Env = append(cmd.Env, "VERIF_C09_FAULT="+k.fault, fmt.Sprintf("VERIF_C09_FAULT_N=%d", k.fN))
	}
	trigger := -1 // kline with k.after > 0: index of the awaited line
	byKind := map[string]int{}
	cmd.ExtraFiles = []*os.File{pw}
	cmd.Stdout, cmd.Stderr = nil, nil
	start := time.Now()
	require.NoError(t, cmd.Start())
	pw.Close()
	var res vc9Run
	res.openLat = -1
	var mu sync.Mutex
	kill := func() {
		mu.Lock()
		if !res.killed && !res.done {
			res.killed = true
			cmd.Process.Kill() // SIGKILL
		}
		mu.Unlock()
	}
	var timer *time.Timer
	if k.kind == "time" {
		timer = time.AfterFunc(k.delay, kill)
	}
	watchdog := time.AfterFunc(60*time.Second, kill)
	sc := bufio.NewScanner(pr)
	for sc.Scan() {
		ln := sc.Text()
		mu.Lock()
		if res.killed {
			mu.Unlock()
			// lines that were already in the pipe when the kill was sent still count as observed progress
		} else {
			mu.Unlock()
		}
		res.lines = append(res.lines, ln)
		f := strings.Fields(ln)
		switch f[0] {
		case "A":
			res.maxA, _ = strconv.Atoi(f[1])
		case "B":
			res.maxB, _ = strconv.Atoi(f[1])
		case "W":
			res.maxW, _ = strconv.Atoi(f[1])
		case "O":
			res.openLat, _ = strconv.Atoi(f[1])
			res.tOpen = time.Since(start)
		case "C":
			mu.Lock()
			res.done = true
			mu.Unlock()
		}
		byKind[f[0]]++
		hit := k.kind == "kline" && f[0] == k.lk && byKind[f[0]] == k.line
		if hit && k.after > 0 {
			trigger, hit = len(res.lines), false
		}
		if trigger >= 0 && len(res.lines) == trigger+k.after {
			hit = true
		}
		if f[0] == "FE" || f[0] == "FP" || f[0] == "G" {
			res.fault = f[0]
		}
		if (k.kind == "line" && len(res.lines) == k.line) || hit ||
			(k.kind == "kline" && len(res.lines) == 30) { // the awaited event did not come: kill anyway
			res.killAfter = f[0]
			if k.delay > 0 {
				time.Sleep(k.delay)
			}
			kill()
		}
	}
	pr.Close()
	cmd.Wait()
	watchdog.Stop()
	if timer != nil {
		timer.Stop()
	}
	if k.kind == "time" && res.killed {
		res.killAfter = "t"
		if len(res.lines) > 0 {
			res.killAfter = "t" + strings.Fields(res.lines[len(res.lines)-1])[0]
		}
	}
	res.wall = time.Since(start)
	return res
}

// ---------------------------------------------------------------------------------------------
// parent: what is on disk (plain SQL, before any OpenLedger)

type vc9Disk struct {
	earliest, nblocks, bad int
	dbRound                int
	flag, lookback         uint64
	unfinished, first      []int
	stored                 []int
	dataFiles, cpFiles     []int
	label                  int
}

func vc9Ints(xs []int) []interface{} {
	out := []interface{}{}
	for _, x := range xs {
		out = append(out, x)
	}
	return out
}

func (d vc9Disk) terms() []interface{} {
	return []interface{}{d.earliest, d.nblocks, d.bad, d.dbRound, d.flag, d.lookback, vc9Ints(d.unfinished), vc9Ints(d.first),
		vc9Ints(d.stored), vc9Ints(d.dataFiles), vc9Ints(d.cpFiles), d.label}
}

func vc9QueryInts(h *sql.DB, q string) (out []int) {
	rows, err := h.Query(q)
	if err != nil {
		return nil // table does not exist yet
	}
	defer rows.Close()
	for rows.Next() {
		var v sql.NullInt64
		if rows.Scan(&v) == nil && v.Valid {
			out = append(out, int(v.Int64))
		}
	}
	return
}

func vc9LabelRound(s string) int {
	if i := strings.IndexByte(s, '#'); i > 0 {
		v, _ := strconv.Atoi(s[:i])
		return v
	}
	return 0
}

func vc9Files(dir, suffix string) (out []int) {
	filepath.Walk(filepath.Join(dir, "led", trackerdb.CatchpointDirName), func(p string, info os.FileInfo, err error) error {
		if err == nil && !info.IsDir() && strings.HasSuffix(p, suffix) {
			v, _ := strconv.Atoi(strings.TrimSuffix(filepath.Base(p), suffix))
			out = append(out, v)
		}
		return nil
	})
	sort.Ints(out)
	return
}

func vc9Inspect(t *testing.T, dir string, h *vc9Hist) (d vc9Disk) {
	bp := filepath.Join(dir, "led.block.sqlite")
	if _, err := os.Stat(bp); err == nil {
		acc, err := db.MakeAccessor(bp, false, false)
		require.NoError(t, err)
		acc.Handle.Exec("DROP TRIGGER IF EXISTS verif_c09_fail") // the harness's own fault injector, if the kill came while it was armed
		rows, err := acc.Handle.Query("SELECT rnd, blkdata FROM blocks ORDER BY rnd")
		if err == nil {
			first := true
			prev := -1
			for rows.Next() {
				var r int
				var data []byte
				require.NoError(t, rows.Scan(&r, &data))
				if first {
					d.earliest, first = r, false
				} else if r != prev+1 {
					d.bad++ // a hole in the block table
				}
				prev = r
				d.nblocks = r
				if r >= 1 && (r > len(h.enc) || string(data) != string(h.enc[r-1])) {
					d.bad++
				}
			}
			rows.Close()
		}
		acc.Close()
	}
	tp := filepath.Join(dir, "led.tracker.sqlite")
	if _, err := os.Stat(tp); err == nil {
		acc, err := db.MakeAccessor(tp, false, false)
		require.NoError(t, err)
		if v := vc9QueryInts(acc.Handle, "SELECT rnd FROM acctrounds WHERE id='acctbase'"); len(v) == 1 {
			d.dbRound = v[0]
		}
		if v := vc9QueryInts(acc.Handle, "SELECT intval FROM catchpointstate WHERE id='writingFirstStageInfo'"); len(v) == 1 {
			d.flag = uint64(v[0])
		}
		if v := vc9QueryInts(acc.Handle, "SELECT intval FROM catchpointstate WHERE id='catchpointLookback'"); len(v) == 1 {
			d.lookback = uint64(v[0])
		}
		var lbl sql.NullString
		if acc.Handle.QueryRow("SELECT strval FROM catchpointstate WHERE id='lastCatchpoint'").Scan(&lbl) == nil && lbl.Valid {
			d.label = vc9LabelRound(lbl.String)
		}
		d.unfinished = vc9QueryInts(acc.Handle, "SELECT round FROM unfinishedcatchpoints ORDER BY round")
		d.first = vc9QueryInts(acc.Handle, "SELECT round FROM catchpointfirststageinfo ORDER BY round")
		d.stored = vc9QueryInts(acc.Handle, "SELECT round FROM storedcatchpoints ORDER BY round")
		acc.Close()
	}
	d.dataFiles = vc9Files(dir, ".data")
	d.cpFiles = vc9Files(dir, ".catchpoint")
	return
}

// ---------------------------------------------------------------------------------------------
// parent: reopen and observe

func vc9Reopen(t *testing.T, dir string, h *vc9Hist) []interface{} {
	cfg := h.cfg
	l, err := OpenLedger(vc9FileLog(filepath.Join(dir, "parent.log")), filepath.Join(dir, "led"), false, cfg.initState(), cfg.local())
	if err != nil {
		h.st["open_failed"]++
		os.WriteFile(filepath.Join(dir, "open_error.txt"), []byte(err.Error()), 0644)
		return vL(0, 0, 0, 0, 0, 0, vL(), vL(), vL(), vL(), vL(), 0, vL(), vL())
	}
	latest := int(l.Latest())
	dbr := int(l.trackers.getDbRound())
	bad := 0
	var earliest basics.Round
	l.blockDBs.Rdb.Atomic(func(ctx context.Context, tx *sql.Tx) error {
		return tx.QueryRow("SELECT MIN(rnd) FROM blocks").Scan(&earliest)
	})
	for r := int(earliest); r <= latest; r++ {
		if r == 0 {
			continue
		}
		blk, err := l.Block(basics.Round(r))
		if err != nil || r > len(h.blocks) || blk.Hash() != h.blocks[r-1].Hash() || string(protocol.Encode(&blk)) != string(h.enc[r-1]) {
			bad++
		}
	}
	var lookups, totals []interface{}
	for r := dbr; r <= latest; r++ {
		row := []interface{}{r}
		for _, a := range h.uni {
			d, _, err := l.LookupWithoutRewards(basics.Round(r), a)
			if err != nil {
				row = append(row, vL(h.id[a], vSym("err")))
				continue
			}
			row = append(row, h.acctTerm(a, d))
		}
		lookups = append(lookups, row)
		tt, err := l.Totals(basics.Round(r))
		if err != nil {
			totals = append(totals, vL(r, vSym("err")))
		} else {
			totals = append(totals, vL(r, tt.Online.Money.Raw, tt.Offline.Money.Raw, tt.NotParticipating.Money.Raw, tt.RewardsLevel))
		}
	}
	label := vc9LabelRound(l.GetLastCatchpointLabel())
	l.Close()
	d := vc9Inspect(t, dir, h)
	return vL(1, latest, bad, dbr, d.flag, d.lookback, vc9Ints(d.unfinished), vc9Ints(d.first), vc9Ints(d.stored),
		vc9Ints(d.dataFiles), vc9Ints(d.cpFiles), label, lookups, totals)
}

// ---------------------------------------------------------------------------------------------
// parent: the test

func vc9Configs(tier string) []vc9Cfg {
	base := []vc9Cfg{
		// L arch cpI cpL tracking txnlife nacc rounds
		{L: 2, Archival: true, CpInterval: 0, CpLookback: 4, Tracking: -1, TxnLife: 1000, NAcc: 4, Rounds: 18},
		{L: 0, Archival: false, CpInterval: 0, CpLookback: 4, Tracking: -1, TxnLife: 4, NAcc: 4, Rounds: 20},
		{L: 1, Archival: false, CpInterval: 4, CpLookback: 4, Tracking: 1, TxnLife: 6, NAcc: 4, Rounds: 22},
		{L: 2, Archival: true, CpInterval: 8, CpLookback: 4, Tracking: 2, TxnLife: 1000, NAcc: 4, Rounds: 22},
		{L: 4, Archival: false, CpInterval: 4, CpLookback: 8, Tracking: 2, TxnLife: 8, NAcc: 5, Rounds: 24},
		{L: 3, Archival: true, CpInterval: 4, CpLookback: 8, Tracking: 1, TxnLife: 1000, NAcc: 3, Rounds: 24},
	}
	return base
}

func TestVerifC09(t *testing.T) {
	if os.Getenv("VERIF_C09_CHILD") != "" {
		t.Skip("child process")
	}
	outDir := os.Getenv("VERIF_OUT")
	if outDir == "" {
		outDir = t.TempDir()
	}
	tier := vTier()
	nHist := vEnvInt("VERIF_C09_HIST", 6)
	nChains := vEnvInt("VERIF_C09_CHAINS", 2)
	maxWall := time.Duration(vEnvInt("VERIF_C09_BUDGET_S", 120)) * time.Second
	workers := vEnvInt("VERIF_C09_WORKERS", 3)
	keep := os.Getenv("VERIF_C09_KEEP") == "1"
	out := vOpen("cases.txt")
	defer out.Close()
	st := map[string]int{}
	killKinds := map[string]int{}
	boundaries := map[string]int{}
	var stMu sync.Mutex
	start := time.Now()
	seed0 := vNewRand(0xc09).U64()
	cfgs := vc9Configs(tier)

	type job struct {
		h     *vc9Hist
		chain int
	}
	var jobs []job
	for hi := 0; hi < nHist; hi++ {
		cfg := cfgs[hi%len(cfgs)]
		cfg.Seed = seed0 + uint64(hi)*7919
		h := vc9Generate(t, cfg, st)
		for c := 0; c < nChains; c++ {
			jobs = append(jobs, job{h, c})
		}
	}
	st["histories"] = nHist
	var wg sync.WaitGroup
	jobCh := make(chan job)
	var outMu sync.Mutex
	for w := 0; w < workers; w++ {
		wg.Add(1)
		go func() {
			defer wg.Done()
			for j := range jobCh {
				vc9Chain(t, outDir, j.h, j.chain, start, maxWall, keep, func(c []interface{}) {
					outMu.Lock()
					out.Case(c...)
					outMu.Unlock()
				}, func(kind string, bs []string, extra map[string]int) {
					stMu.Lock()
					killKinds[kind]++
					for _, b := range bs {
						boundaries[b]++
					}
					for k, v := range extra {
						st[k] += v
					}
					stMu.Unlock()
				})
			}
		}()
	}
	for _, j := range jobs {
		jobCh <- j
	}
	close(jobCh)
	wg.Wait()
	hookless := []string{"blocks_durable_tracker_behind", "queued_blocks_lost", "tracker_tx_open_uncommitted", "tracker_committed_no_postcommit",
		"first_stage_flag_set_no_info", "first_stage_data_file_partial_or_unrecorded", "first_stage_done_second_pending", "catchpoint_file_unrecorded",
		"killed_inside_open"}
	reached := 0
	for _, b := range hookless {
		if boundaries[b] > 0 {
			reached++
		}
	}
	faultsReached := 0
	for _, b := range []string{"fault_tracker_tx_error_rolled_back", "fault_tracker_tx_panic_rolled_back", "fault_block_tx_error_rolled_back"} {
		if boundaries[b] > 0 {
			faultsReached++
		}
	}
	vStats(map[string]interface{}{
		"survived_fault_kinds_reached": faultsReached, "survived_fault_kinds_total": 3,
		"tier": tier, "counts": st, "kill_after_line_kind": killKinds, "durable_boundaries_hit": boundaries,
		"boundary_kinds_reached": reached, "boundary_kinds_total": len(hookless),
		"hook":   "none: /repo unmodified; crash points are reached by SIGKILL of a child process at progress lines (two in-package probe trackers widen the commit windows) and at jittered times",
		"wall_s": time.Since(start).Seconds(),
	})
}

// one chain: incarnations on one directory until the history is complete
func vc9Chain(t *testing.T, outDir string, h *vc9Hist, chain int, start time.Time, maxWall time.Duration, keep bool,
	emit func([]interface{}), stat func(string, []string, map[string]int)) {
	cfg := h.cfg
	// ledger files: $VERIF_C09_DIR (e.g. a tmpfs: a process kill never loses page-cache contents, so fsync latency only
	// costs time) or $VERIF_OUT
	base := os.Getenv("VERIF_C09_DIR")
	if base == "" {
		base = outDir
	}
	dir := filepath.Join(base, fmt.Sprintf("c09_%d_%d_%d", os.Getpid(), cfg.Seed%100000, chain))
	os.RemoveAll(dir)
	require.NoError(t, os.MkdirAll(dir, 0755))
	require.NoError(t, h.writeBlocks(filepath.Join(dir, "blocks.bin")))
	if !keep {
		defer os.RemoveAll(dir)
	}
	rnd := vNewRand(cfg.Seed*31 + uint64(chain))
	gen := 0
	if cfg.genFiles() {
		gen = 1
	}
	arch := 0
	if cfg.Archival {
		arch = 1
	}
	cfgTerm := vL(cfg.L, arch, cfg.CpInterval, cfg.CpLookback, gen)
	prevBlocks, confirmed := 0, 0
	openUs := 250000 // time from process start to the end of OpenLedger in the child; refined from the runs
	for inc := 0; inc < 200; inc++ {
		if time.Since(start) > maxWall {
			stat("budget_exhausted", nil, nil)
			return
		}
		var k vc9Kill
		kinds := []string{"B", "A", "W", "W", "T0", "T1", "PC0", "PC1", "PU1"}
		switch c := rnd.Intn(20); {
		case inc > 0 && rnd.Intn(3) == 0:
			// a fault the process survives: the tracker transaction fails at the n-th commit (error or panic inside
			// it, after the other trackers wrote) or a block transaction fails after one BlockPut; then the child is
			// killed right there, a few lines later, or runs on to the end
			k = vc9Kill{kind: "kline", lk: "X", line: 1, fault: []string{"err", "panic", "err", "panic", "blk"}[rnd.Intn(5)], fN: 1 + rnd.Intn(2)}
			if k.fault == "blk" {
				k.lk = []string{"G", "H"}[rnd.Intn(2)]
			}
			switch rnd.Intn(4) {
			case 0:
				k.after = 1 + rnd.Intn(8)
			case 1:
				k.kind = "none"
			}
		case c < 10:
			// right after the n-th event of a chosen kind (probe kinds: the child pauses there)
			k = vc9Kill{kind: "kline", lk: kinds[rnd.Intn(len(kinds))], line: 1 + rnd.Intn(3)}
		case c < 15:
			k = vc9Kill{kind: "line", line: 1 + rnd.Intn(16)}
			if rnd.Intn(2) == 0 {
				k.delay = time.Duration(rnd.Intn(3000)) * time.Microsecond
			}
		case c < 16:
			k = vc9Kill{kind: "line", line: 1 + rnd.Intn(50)}
		default:
			// inside process start / OpenLedger / shortly after
			// (the first 40% of that time is process start-up: nothing has touched the files yet)
			k = vc9Kill{kind: "time", delay: time.Duration(openUs*4/10+rnd.Intn(openUs)) * time.Microsecond}
		}
		t0 := time.Now()
		run := vc9RunChild(t, dir, cfg, k, int(rnd.U64()%1000000), cfg.Rounds)
		extra := map[string]int{"incarnations": 1, "ms_child": int(time.Since(t0).Milliseconds())}
		if run.tOpen > 0 {
			openUs = (3*openUs + int(run.tOpen.Microseconds())) / 4
			extra["ms_child_to_open"] = int(run.tOpen.Milliseconds())
			extra["n_child_open"] = 1
		}
		for _, ln := range run.lines {
			if strings.HasPrefix(ln, "U ") {
				extra["child_unordered_or_retry"]++
			}
			if strings.HasPrefix(ln, "E ") {
				extra["child_error_lines"]++
				os.WriteFile(filepath.Join(outDir, fmt.Sprintf("child_error_%d_%d_%d.txt", cfg.Seed%100000, chain, inc)), []byte(strings.Join(run.lines, "\n")), 0644)
			}
		}
		if run.maxW > confirmed {
			confirmed = run.maxW
		}
		added := prevBlocks
		if run.maxB > added {
			added = run.maxB
		}
		if run.openLat > added {
			added = run.openLat
		}
		if !run.killed {
			extra["ran_to_completion"]++
		}
		t1 := time.Now()
		disk := vc9Inspect(t, dir, h)
		obs := vc9Reopen(t, dir, h)
		extra["ms_parent_reopen"] = int(time.Since(t1).Milliseconds())
		kind := run.killAfter
		if !run.killed {
			kind = "none"
		}
		if run.fault != "" {
			kind = run.fault + "_" + kind // the injected fault happened in this incarnation
			extra["fault_"+run.fault]++
		}
		var bs []string
		if run.killed {
			bs = vc9Boundaries(cfg, run, disk, added)
		}
		switch run.fault {
		case "FE":
			bs = append(bs, "fault_tracker_tx_error_rolled_back")
		case "FP":
			bs = append(bs, "fault_tracker_tx_panic_rolled_back")
		case "G":
			bs = append(bs, "fault_block_tx_error_rolled_back")
		}
		emit([]interface{}{vSym("c09"), cfgTerm, append([]interface{}{}, h.gen...), h.roundsTerm(),
			vL(prevBlocks, added, confirmed, vSym("k_"+kind)), disk.terms(), obs})
		stat(kind, bs, extra)
		// state for the next incarnation: the parent's own reopen closed cleanly
		prevBlocks = disk.nblocks
		if ok, _ := obs[0].(int); ok == 0 {
			return // OpenLedger failed: the case is emitted, the chain cannot continue
		}
		if !run.killed && run.done {
			return
		}
	}
}

// which durable-step boundary did the kill land on, judged from the disk and the transcript
func vc9Boundaries(cfg vc9Cfg, run vc9Run, d vc9Disk, added int) (bs []string) {
	lastProbe := ""
	sawO := false
	for _, ln := range run.lines {
		f := strings.Fields(ln)
		if f[0] == "O" {
			sawO = true
		}
		if strings.HasPrefix(f[0], "T") || strings.HasPrefix(f[0], "P") {
			lastProbe = f[0]
		}
	}
	last := ""
	if len(run.lines) > 0 {
		last = strings.Fields(run.lines[len(run.lines)-1])[0]
	}
	if !sawO {
		bs = append(bs, "killed_inside_open")
	}
	if d.nblocks > d.dbRound+int(cfg.L) {
		bs = append(bs, "blocks_durable_tracker_behind")
	}
	if d.nblocks < run.maxA {
		bs = append(bs, "queued_blocks_lost")
	}
	if last == "T0" || last == "T1" {
		bs = append(bs, "tracker_tx_open_uncommitted")
	}
	if last == "PC0" || (last == "PC1" && lastProbe == "PC1") {
		bs = append(bs, "tracker_committed_no_postcommit")
	}
	if d.flag == 1 {
		bs = append(bs, "first_stage_flag_set_no_info")
		for _, x := range d.dataFiles {
			if x == d.dbRound {
				bs = append(bs, "first_stage_data_file_partial_or_unrecorded")
			}
		}
	}
	if len(d.unfinished) > 0 && d.flag == 0 {
		bs = append(bs, "first_stage_done_second_pending")
	}
	for _, f := range d.cpFiles {
		rec := false
		for _, s := range d.stored {
			if s == f {
				rec = true
			}
		}
		if !rec {
			bs = append(bs, "catchpoint_file_unrecorded")
		}
	}
	return
}
