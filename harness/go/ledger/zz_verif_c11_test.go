//go:build verif

package ledger

// C11 harness: drives the real txTail (newBlock / committedUpTo / prepareCommit + commitRound +
// postCommit against a real in-memory SQLite tracker DB / loadFromDisk + replay) with generated
// block histories and probes checkDup.  One case line = one whole history:
//
//   (c11 (L D sup fix) (op ...))
//     L = MaxTxnLife, D = DeeperBlockHeaderHistory, sup = SupportTransactionLeases,
//     fix = FixTransactionLeases of a consensus version registered for the run
//   op:
//     (b ((id fv lv snd lease) ...))    newBlock at round latest+1 (delta built as cow.addTx does)
//     (u r)                             committedUpTo(r)
//     (k off obs)                       prepareCommit/commitRound/postCommit with dcc.offset = off
//                                       obs: 0 ok, 1 prepareCommit error, 2 commitRound (DB) error
//     (r keep obs)                      restart: blocks truncated to `keep`, fresh txTail,
//                                       loadFromDisk(dbRound) with Latest()=keep, replay dbRound+1..keep
//                                       obs: 0 ok, 1 loadFromDisk error
//     (q cur fv lv id snd lease obs)    checkDup; obs: 0 nil, 1 TransactionInLedger, 2 LeaseInLedger,
//                                       3 errTxTailMissingRound
//     (d lwm ((rnd ((snd lease exp) ...)) ...) ((lv (id ...)) ...) npending lowestHdr (hdrRnd ...))
//                                       dump of the in-memory state (all lists sorted)

import (
	"context"
	"encoding/binary"
	"errors"
	"fmt"
	"math"
	"sort"
	"testing"

	"github.com/stretchr/testify/require"

	"github.com/algorand/go-algorand/config"
	"github.com/algorand/go-algorand/data/basics"
	"github.com/algorand/go-algorand/data/bookkeeping"
	"github.com/algorand/go-algorand/data/transactions"
	"github.com/algorand/go-algorand/ledger/ledgercore"
	"github.com/algorand/go-algorand/ledger/store/trackerdb"
	"github.com/algorand/go-algorand/ledger/store/trackerdb/sqlitedriver"
	ledgertesting "github.com/algorand/go-algorand/ledger/testing"
	"github.com/algorand/go-algorand/protocol"
)

type vc11Tx struct {
	id, fv, lv, snd, lease uint64
}

type vc11Ledger struct {
	Ledger
	latest basics.Round
}

func (l *vc11Ledger) Latest() basics.Round { return l.latest }

func vc11Proto(L, D uint64, sup, fix bool) protocol.ConsensusVersion {
	return protocol.ConsensusVersion(fmt.Sprintf("verif-c11-L%d-D%d-%v-%v", L, D, sup, fix))
}

func vc11Txid(id uint64) (t transactions.Txid) {
	binary.BigEndian.PutUint64(t[0:8], id)
	t[31] = 0xc1
	return
}

func vc11Addr(s uint64) (a basics.Address) {
	binary.BigEndian.PutUint64(a[8:16], s)
	a[0] = 0xad
	return
}

func vc11Lease(l uint64) (x [32]byte) {
	if l != 0 {
		binary.BigEndian.PutUint64(x[16:24], l)
	}
	return
}

// world: the real txTail + the persistent parts (tracker DB rows, block list)
type vc11World struct {
	t       *testing.T
	ver     protocol.ConsensusVersion
	proto   config.ConsensusParams
	led     *vc11Ledger
	tail    *txTail
	blocks  [][]vc11Tx // blocks[i] = round i+1
	dbRound basics.Round
	ops     []interface{}
}

func (w *vc11World) latest() basics.Round { return basics.Round(len(w.blocks)) }

func (w *vc11World) mkBlock(rnd basics.Round, txs []vc11Tx) (bookkeeping.Block, ledgercore.StateDelta) {
	blk := bookkeeping.Block{
		BlockHeader: bookkeeping.BlockHeader{
			Round:        rnd,
			UpgradeState: bookkeeping.UpgradeState{CurrentProtocol: w.ver},
		},
		Payset: make(transactions.Payset, len(txs)),
	}
	delta := ledgercore.MakeStateDelta(&blk.BlockHeader, 0, len(txs), 0)
	for i, x := range txs {
		blk.Payset[i].Txn.Sender = vc11Addr(x.snd)
		blk.Payset[i].Txn.Lease = vc11Lease(x.lease)
		blk.Payset[i].Txn.FirstValid = basics.Round(x.fv)
		blk.Payset[i].Txn.LastValid = basics.Round(x.lv)
		// as roundCowState.addTx
		delta.Txids[vc11Txid(x.id)] = ledgercore.IncludedTransactions{LastValid: basics.Round(x.lv), Intra: uint64(len(delta.Txids))}
		if x.lease != 0 {
			delta.AddTxLease(ledgercore.Txlease{Sender: vc11Addr(x.snd), Lease: vc11Lease(x.lease)}, basics.Round(x.lv))
		}
	}
	return blk, delta
}

func (w *vc11World) opBlock(txs []vc11Tx) {
	w.blocks = append(w.blocks, txs)
	w.led.latest = w.latest()
	blk, delta := w.mkBlock(w.latest(), txs)
	w.tail.newBlock(blk, delta)
	l := make([]interface{}, 0, len(txs))
	for _, x := range txs {
		l = append(l, vL(x.id, x.fv, x.lv, x.snd, x.lease))
	}
	w.ops = append(w.ops, vL(vSym("b"), l))
}

func (w *vc11World) opCommitted(r basics.Round) {
	w.tail.committedUpTo(r)
	w.ops = append(w.ops, vL(vSym("u"), uint64(r)))
}

func (w *vc11World) opCommit(off uint64) {
	dcc := &deferredCommitContext{deferredCommitRange: deferredCommitRange{oldBase: w.dbRound, offset: off}}
	obs := 0
	if err := w.tail.prepareCommit(dcc); err != nil {
		obs = 1
	} else {
		err = w.led.trackerDBs.Transaction(func(ctx context.Context, tx trackerdb.TransactionScope) error {
			return w.tail.commitRound(ctx, tx, dcc)
		})
		if err != nil {
			obs = 2
		} else {
			w.tail.postCommit(context.Background(), dcc)
			w.dbRound = dcc.newBase()
		}
	}
	w.ops = append(w.ops, vL(vSym("k"), off, obs))
}

func (w *vc11World) opRestart(keep basics.Round) bool {
	w.blocks = w.blocks[:keep]
	w.led.latest = keep
	w.tail = &txTail{}
	obs := 0
	if err := w.tail.loadFromDisk(w.led, w.dbRound); err != nil {
		obs = 1
	} else {
		for r := w.dbRound + 1; r <= keep; r++ { // trackerRegistry.replay
			blk, delta := w.mkBlock(r, w.blocks[r-1])
			w.tail.newBlock(blk, delta)
		}
	}
	w.ops = append(w.ops, vL(vSym("r"), uint64(keep), obs))
	return obs == 0
}

func (w *vc11World) opProbe(cur, fv, lv, id, snd, lease uint64) int {
	err := w.tail.checkDup(w.proto, basics.Round(cur), basics.Round(fv), basics.Round(lv), vc11Txid(id),
		ledgercore.Txlease{Sender: vc11Addr(snd), Lease: vc11Lease(lease)})
	obs := 0
	var e1 *ledgercore.TransactionInLedgerError
	var e2 *ledgercore.LeaseInLedgerError
	var e3 *errTxTailMissingRound
	switch {
	case err == nil:
	case errors.As(err, &e1):
		obs = 1
	case errors.As(err, &e2):
		obs = 2
	case errors.As(err, &e3):
		obs = 3
	default:
		obs = 9
	}
	w.ops = append(w.ops, vL(vSym("q"), cur, fv, lv, id, snd, lease, obs))
	return obs
}

func vc11U64(b []byte) uint64 { return binary.BigEndian.Uint64(b) }

func (w *vc11World) opDump() {
	t := w.tail
	t.tailMu.RLock()
	defer t.tailMu.RUnlock()
	rr := make([]uint64, 0, len(t.recent))
	for r := range t.recent {
		rr = append(rr, uint64(r))
	}
	sort.Slice(rr, func(i, j int) bool { return rr[i] < rr[j] })
	recent := make([]interface{}, 0, len(rr))
	for _, r := range rr {
		type le struct{ s, l, e uint64 }
		var ls []le
		for k, e := range t.recent[basics.Round(r)].txleases {
			ls = append(ls, le{vc11U64(k.Sender[8:16]), vc11U64(k.Lease[16:24]), uint64(e)})
		}
		sort.Slice(ls, func(i, j int) bool {
			if ls[i].s != ls[j].s {
				return ls[i].s < ls[j].s
			}
			return ls[i].l < ls[j].l
		})
		ll := make([]interface{}, 0, len(ls))
		for _, x := range ls {
			ll = append(ll, vL(x.s, x.l, x.e))
		}
		recent = append(recent, vL(r, ll))
	}
	lvs := make([]uint64, 0, len(t.lastValid))
	for r := range t.lastValid {
		lvs = append(lvs, uint64(r))
	}
	sort.Slice(lvs, func(i, j int) bool { return lvs[i] < lvs[j] })
	lvl := make([]interface{}, 0, len(lvs))
	for _, r := range lvs {
		ids := make([]uint64, 0)
		for id := range t.lastValid[basics.Round(r)] {
			ids = append(ids, vc11U64(id[0:8]))
		}
		sort.Slice(ids, func(i, j int) bool { return ids[i] < ids[j] })
		il := make([]interface{}, 0, len(ids))
		for _, x := range ids {
			il = append(il, x)
		}
		lvl = append(lvl, vL(r, il))
	}
	hs := make([]uint64, 0, len(t.blockHeaderData))
	for r := range t.blockHeaderData {
		hs = append(hs, uint64(r))
	}
	sort.Slice(hs, func(i, j int) bool { return hs[i] < hs[j] })
	hl := make([]interface{}, 0, len(hs))
	for _, x := range hs {
		hl = append(hl, x)
	}
	w.ops = append(w.ops, vL(vSym("d"), uint64(t.lowWaterMark), recent, lvl, len(t.roundTailSerializedDeltas), uint64(t.lowestBlockHeaderRound), hl))
}

func (w *vc11World) reset(ver protocol.ConsensusVersion) {
	w.ver = ver
	w.proto = config.Consensus[ver]
	w.blocks = nil
	w.dbRound = 0
	w.ops = nil
	w.led.latest = 0
	// empty the txtail table
	err := w.led.trackerDBs.Batch(func(ctx context.Context, tx trackerdb.BatchScope) error {
		aw, err := tx.MakeAccountsWriter()
		if err != nil {
			return err
		}
		return aw.TxtailNewRound(ctx, 0, nil, basics.Round(math.MaxInt64))
	})
	require.NoError(w.t, err)
	w.tail = &txTail{}
	require.NoError(w.t, w.tail.loadFromDisk(w.led, 0))
}

// generator-side bookkeeping: committed txs still of interest
type vc11Seen struct {
	tx  vc11Tx
	rnd uint64
}

func vc11RunCase(w *vc11World, rnd *vRand, L, D uint64, sup, fix bool, nops int, st map[string]int) {
	w.reset(vc11Proto(L, D, sup, fix))
	nextID := uint64(1)
	var seen []vc11Seen
	active := func(snd, lease, at uint64) bool { // is (snd,lease) still held at round `at`
		for _, s := range seen {
			if s.tx.snd == snd && s.tx.lease == lease && lease != 0 && s.tx.lv >= at {
				return true
			}
		}
		return false
	}
	badHistory := rnd.Intn(25) == 0 // occasionally an out-of-domain history (double commit / overlong window)
	probes := func() {
		lat := uint64(w.latest())
		cur := lat + 1
		n := 0
		for i := len(seen) - 1; i >= 0 && n < 6; i-- {
			s := seen[i]
			if s.tx.lv+2 < cur && rnd.Intn(4) != 0 {
				continue
			}
			n++
			c := cur
			switch rnd.Intn(12) {
			case 0:
				c = lat
			case 1:
				c = cur + 1
			case 2:
				c = s.tx.lv + 1
			}
			// the committed transaction itself
			w.opProbe(c, s.tx.fv, s.tx.lv, s.tx.id, s.tx.snd, s.tx.lease)
			st["probe_committed"]++
			// a different transaction: fresh id, same lease key, window containing cur
			fv := cur - uint64(rnd.Intn(int(L)+1))
			if fv > cur {
				fv = 0
			}
			lv := cur + uint64(rnd.Intn(int(L)+1))
			if lv > fv+L {
				lv = fv + L
			}
			if s.tx.lease != 0 {
				w.opProbe(c, fv, lv, 1000000+s.tx.id, s.tx.snd, s.tx.lease)
				w.opProbe(c, fv, lv, 1000000+s.tx.id, s.tx.snd+1, s.tx.lease) // other sender
				w.opProbe(c, fv, lv, 1000000+s.tx.id, s.tx.snd, s.tx.lease+1) // other lease
				st["probe_lease"] += 3
			}
			// near-miss id with the same window, no lease
			w.opProbe(c, s.tx.fv, s.tx.lv, s.tx.id+1000000, s.tx.snd, 0)
			st["probe_nearmiss"]++
			if rnd.Intn(6) == 0 { // same id, other lastValid (ids_consistent broken: out of domain)
				w.opProbe(c, s.tx.fv, s.tx.lv+1, s.tx.id, s.tx.snd, 0)
			}
		}
		// a completely fresh transaction
		w.opProbe(cur, cur, cur+uint64(rnd.Intn(int(L)+1)), 2000000+nextID, uint64(1+rnd.Intn(3)), uint64(rnd.Intn(3)))
		st["probe_fresh"]++
	}
	for i := 0; i < nops; i++ {
		lat := uint64(w.latest())
		switch k := rnd.Intn(100); {
		case k < 50: // new block
			r := lat + 1
			var txs []vc11Tx
			for j := rnd.Intn(4); j > 0; j-- {
				back := uint64(rnd.Intn(int(L) + 1))
				fv := uint64(0)
				if r > back {
					fv = r - back
				}
				lv := r + uint64(rnd.Intn(int(fv+L-r)+1))
				if rnd.Intn(3) == 0 {
					lv = fv + L // full window
				}
				x := vc11Tx{id: nextID, fv: fv, lv: lv, snd: uint64(1 + rnd.Intn(3))}
				nextID++
				if rnd.Intn(2) == 0 {
					x.lease = uint64(1 + rnd.Intn(2))
					dupInBlock := false
					for _, y := range txs {
						if y.snd == x.snd && y.lease == x.lease {
							dupInBlock = true
						}
					}
					// never two holders of one lease in a block (the evaluator's cow excludes it; the order of
					// the persisted Leases list follows Go map iteration, so reload would be nondeterministic)
					if dupInBlock || (active(x.snd, x.lease, r) && !badHistory) {
						x.lease = 0
					}
				}
				if badHistory && rnd.Intn(4) == 0 && len(seen) > 0 {
					if rnd.Bool() {
						y := seen[rnd.Intn(len(seen))].tx // double commit (never twice in one block:
						inBlk := false                     // StateDelta.Txids is a map, the evaluator excludes it)
						for _, z := range txs {
							inBlk = inBlk || z.id == y.id
						}
						for _, z := range txs {
							inBlk = inBlk || (y.lease != 0 && z.snd == y.snd && z.lease == y.lease)
						}
						if !inBlk {
							x = y
						}
					} else {
						x.lv = x.fv + L + 1 + uint64(rnd.Intn(3)) // overlong window
					}
				}
				txs = append(txs, x)
			}
			w.opBlock(txs)
			for _, x := range txs {
				seen = append(seen, vc11Seen{x, r})
			}
			st["op_block"]++
			st[fmt.Sprintf("block_txs_%d", len(txs))]++
			if rnd.Intn(3) != 0 {
				probes()
			}
		case k < 68: // committedUpTo
			lwm := uint64(w.tail.lowWaterMark)
			r := lat
			if lat > lwm && rnd.Intn(3) == 0 {
				r = lwm + uint64(rnd.Intn(int(lat-lwm)+1))
			}
			if r == 0 {
				continue
			}
			if rnd.Intn(40) == 0 && r > 1 { // out of discipline: below the low water mark
				r = uint64(1 + rnd.Intn(int(r)))
			}
			w.opCommitted(basics.Round(r))
			st["op_committed"]++
		case k < 84: // commit a prefix of the pending rounds to the tracker DB
			pend := lat - uint64(w.dbRound)
			if pend == 0 {
				continue
			}
			off := uint64(1 + rnd.Intn(int(pend)))
			if rnd.Intn(3) == 0 {
				off = 1
			}
			w.opCommit(off)
			st["op_commit"]++
		case k < 94: // restart
			keep := lat
			if rnd.Intn(3) == 0 {
				keep = uint64(w.dbRound) + uint64(rnd.Intn(int(lat-uint64(w.dbRound))+1))
			}
			rows := uint64(w.dbRound)
			if rows > L+D {
				rows = L + D
			}
			if !w.opRestart(basics.Round(keep)) {
				st["restart_failed"]++
				return // the txTail is half-initialised: the history ends here
			}
			kept := seen[:0]
			for _, s := range seen {
				if s.rnd <= keep {
					kept = append(kept, s)
				}
			}
			seen = kept
			st["op_restart"]++
			st[fmt.Sprintf("restart_rows_%d", min(rows, 3))]++
			probes()
		default:
			w.opDump()
			st["op_dump"]++
		}
	}
	probes()
	w.opDump()
}

func TestVerifC11(t *testing.T) {
	out := vOpen("cases_c11.txt")
	defer out.Close()

	// consensus versions with small MaxTxnLife so that garbage collection and tail retention are
	// exercised by short histories (the real networks use 1000 / 1)
	var vers []protocol.ConsensusVersion
	for L := uint64(1); L <= 8; L++ {
		for D := uint64(0); D <= 2; D++ {
			for f := 0; f < 4; f++ {
				p := config.Consensus[protocol.ConsensusCurrentVersion]
				p.MaxTxnLife = L
				p.DeeperBlockHeaderHistory = D
				p.SupportTransactionLeases = f&1 == 1
				p.FixTransactionLeases = f&2 == 2
				v := vc11Proto(L, D, p.SupportTransactionLeases, p.FixTransactionLeases)
				config.Consensus[v] = p
				vers = append(vers, v)
			}
		}
	}
	defer func() {
		for _, v := range vers {
			delete(config.Consensus, v)
		}
	}()

	led := &vc11Ledger{}
	led.trackerDBs, _ = sqlitedriver.OpenForTesting(t, true)
	defer led.trackerDBs.Close()
	err := led.trackerDBs.Batch(func(ctx context.Context, tx trackerdb.BatchScope) error {
		tx.Testing().AccountsInitTest(t, ledgertesting.RandomAccounts(2, true), protocol.ConsensusCurrentVersion)
		return nil
	})
	require.NoError(t, err)
	w := &vc11World{t: t, led: led}
	st := map[string]int{}

	emit := func(L, D uint64, sup, fix bool) {
		out.Case(vSym("c11"), vL(L, D, sup, fix), w.ops)
	}

	// 0. scripted: restart with exactly one persisted tail round (dbRound = 1)
	{
		L, D := uint64(4), uint64(1)
		w.reset(vc11Proto(L, D, true, true))
		w.opBlock([]vc11Tx{{id: 1, fv: 1, lv: 5, snd: 1, lease: 1}, {id: 2, fv: 1, lv: 4, snd: 2}})
		w.opBlock(nil)
		w.opCommitted(2)
		w.opProbe(3, 1, 5, 1, 1, 1)
		w.opProbe(3, 1, 4, 2, 2, 0)
		w.opCommit(1)
		w.opRestart(2)
		w.opProbe(3, 1, 5, 1, 1, 1)
		w.opProbe(3, 1, 4, 2, 2, 0)
		w.opProbe(3, 3, 6, 77, 1, 1)
		w.opDump()
		emit(L, D, true, true)
	}

	// 1. volume: hundreds of committed transactions sharing one LastValid (the per-LastValid lists
	// of loadFromDisk start at initialLastValidArrayLen = 256 entries and are grown by doubling, also
	// across rounds), flushed to the tracker DB and reloaded; every one of them is probed afterwards
	{
		vr := vNewRand(1107)
		nvol := vEnvInt("VERIF_C11_VOL", 4)
		for v := 0; v < nvol; v++ {
			L, D := uint64(8), uint64(vr.Intn(3))
			w.reset(vc11Proto(L, D, true, true))
			nextID := uint64(1)
			var all []vc11Tx
			mk := func(n int, fv, lv uint64) []vc11Tx {
				txs := make([]vc11Tx, 0, n)
				for i := 0; i < n; i++ {
					x := vc11Tx{id: nextID, fv: fv, lv: lv, snd: uint64(1 + vr.Intn(3))}
					if vr.Intn(40) == 0 {
						x.lease = 1000 + nextID // distinct leases: never two holders
					}
					nextID++
					txs = append(txs, x)
				}
				all = append(all, txs...)
				return txs
			}
			nA := 300 + vr.Intn(301) // 300..600 sharing LastValid 7, spread over blocks 1 and 2
			cut := 1 + vr.Intn(nA-1)
			if v%2 == 0 {
				cut = nA // all in one block
			}
			b1 := mk(cut, 1, 7)
			b1 = append(b1, mk(255, 0, 5)...) // control: one below the initial capacity
			w.opBlock(b1)
			b2 := mk(nA-cut, 2, 7)
			b2 = append(b2, mk(257, 1, 6)...) // one above
			w.opBlock(b2)
			b3 := mk(256, 3, 8) // control: exactly the initial capacity
			if v%3 == 2 {
				b3 = append(b3, mk(513, 3, 9)...) // two doublings
			}
			w.opBlock(b3)
			w.opCommitted(3)
			off := uint64(3)
			if v%4 == 1 {
				off = 2 // block 3 comes back through the replay instead of the table
			}
			w.opCommit(off)
			probeAll := func() {
				cur := uint64(w.latest()) + 1
				for i, x := range all {
					w.opProbe(cur, x.fv, x.lv, x.id, x.snd, x.lease)
					if i%16 == 0 {
						w.opProbe(cur, x.fv, x.lv, x.id+1000000, x.snd, 0)   // near miss: fresh id
						w.opProbe(cur, x.fv, x.lv+1, x.id, x.snd, 0)          // same id, other LastValid
					}
				}
			}
			if v == 0 {
				probeAll() // before the restart as well
			}
			if !w.opRestart(3) {
				t.Fatalf("volume history %d: loadFromDisk failed", v)
			}
			probeAll()
			w.opDump()
			w.opBlock(mk(3, 4, 9))
			w.opCommitted(4)
			if v%2 == 1 { // a second flush and restart: rounds 1..4 all come from the table now
				w.opCommit(uint64(w.latest()) - uint64(w.dbRound))
				if !w.opRestart(4) {
					t.Fatalf("volume history %d: second loadFromDisk failed", v)
				}
			}
			probeAll()
			emit(L, D, true, true)
			st["volume_histories"]++
			st["volume_txs"] += len(all)
		}
	}

	rnd := vNewRand(11)
	n := vEnvInt("VERIF_C11_N", 1500)
	maxOps := vEnvInt("VERIF_C11_OPS", 40)
	for i := 0; i < n; i++ {
		L := uint64(1 + rnd.Intn(6))
		if rnd.Intn(6) == 0 {
			L = uint64(1 + rnd.Intn(8))
		}
		D := uint64(rnd.Intn(3))
		sup := rnd.Intn(10) != 0
		fix := rnd.Intn(5) != 0
		nops := 5 + rnd.Intn(maxOps)
		vc11RunCase(w, rnd, L, D, sup, fix, nops, st)
		emit(L, D, sup, fix)
		st[fmt.Sprintf("L_%d", L)]++
	}
	m := map[string]interface{}{}
	for k, v := range st {
		m[k] = v
	}
	m["histories"] = n + 1
	vStats(m)
}
