//go:build verif

package ledger

// C08 harness: a real accountUpdates (+ onlineAccounts + txTail) under a real trackerRegistry on a
// real SQLite tracker DB, fed with prepared StateDeltas through the package's mockLedgerForTracker.
// Commits are driven step by step: a test-only tracker registered FIRST in the registry blocks
// the commit syncer (G1) inside the SQL transaction (prepareCommit done, nothing committed) and
// (G2) at the start of the postCommit loop (transaction committed, accountUpdates' memory not yet
// updated).  After every operation the in-memory state is dumped and every live, deleted and
// never-existing key is looked up at every round around the servable window.
// One case line = one whole run; see coq/model/TrackerCheck.v for the format.

import (
	"context"
	"encoding/binary"
	"encoding/json"
	"errors"
	"fmt"
	"os"
	"path/filepath"
	"runtime"
	"runtime/debug"
	"sort"
	"strings"
	"sync/atomic"
	"testing"
	"time"

	"github.com/stretchr/testify/require"

	"github.com/algorand/go-algorand/config"
	"github.com/algorand/go-algorand/data/basics"
	"github.com/algorand/go-algorand/data/bookkeeping"
	"github.com/algorand/go-algorand/ledger/ledgercore"
	"github.com/algorand/go-algorand/ledger/store/trackerdb"
	"github.com/algorand/go-algorand/logging"
	"github.com/algorand/go-algorand/protocol"
)

// ---------- the gate ----------
type vc08Gate struct {
	emptyTracker
	step     bool
	g1, g1r  chan struct{}
	g2, g2r  chan struct{}
	lastOff  uint64
	lastBase basics.Round
}

func (g *vc08Gate) commitRound(_ context.Context, _ trackerdb.TransactionScope, dcc *deferredCommitContext) error {
	g.lastOff, g.lastBase = dcc.offset, dcc.oldBase
	if g.step {
		g.g1 <- struct{}{}
		<-g.g1r
	}
	return nil
}

func (g *vc08Gate) postCommit(ctx context.Context, dcc *deferredCommitContext) {
	if g.step {
		g.g2 <- struct{}{}
		<-g.g2r
	}
}

// ---------- value encodings ----------
func vc08Addr(n uint64) (a basics.Address) {
	if n == 0 {
		return
	}
	a[0] = 0xad
	binary.BigEndian.PutUint64(a[8:16], n)
	return
}

func vc08AddrNum(a basics.Address) uint64 {
	if a.IsZero() {
		return 0
	}
	return binary.BigEndian.Uint64(a[8:16])
}

type vc08Acct struct{ algos, status, extra uint64 }

func (x vc08Acct) empty() bool { return x == vc08Acct{} }

// extra packs the fields the trackers copy verbatim: auth address (2 bits) and the four resource
// counters lookupLatest relies on (4 bits each)
func vc08Extra(auth, tap, ta, tapp, tals uint64) uint64 {
	return auth | tap<<2 | ta<<6 | tapp<<10 | tals<<14
}

func (x vc08Acct) core() ledgercore.AccountData {
	return ledgercore.AccountData{AccountBaseData: ledgercore.AccountBaseData{
		MicroAlgos: basics.MicroAlgos{Raw: x.algos}, Status: basics.Status(x.status), AuthAddr: vc08Addr(x.extra & 3),
		TotalAssetParams: (x.extra >> 2) & 15, TotalAssets: (x.extra >> 6) & 15,
		TotalAppParams: (x.extra >> 10) & 15, TotalAppLocalStates: (x.extra >> 14) & 15}}
}

func vc08AcctOf(d ledgercore.AccountData) vc08Acct {
	return vc08Acct{d.MicroAlgos.Raw, uint64(d.Status),
		vc08Extra(vc08AddrNum(d.AuthAddr), d.TotalAssetParams, d.TotalAssets, d.TotalAppParams, d.TotalAppLocalStates)}
}

// half of a resource record: -1 nil & not deleted, -2 deleted, n >= 0 set
type vc08Res struct {
	addr, cidx uint64
	p, h       int64
}

func vc08IsApp(cidx uint64) bool { return cidx%2 == 1 }

func vc08Ctype(cidx uint64) basics.CreatableType {
	if vc08IsApp(cidx) {
		return basics.AppCreatable
	}
	return basics.AssetCreatable
}

type vc08Kv struct {
	key       string
	data, old []byte // nil = does not exist
}

type vc08Cre struct {
	cidx    uint64
	created bool
	creator uint64
	ctype   uint64
}

type vc08Delta struct {
	ver   uint64
	accts []struct {
		addr uint64
		a    vc08Acct
	}
	res []vc08Res
	kv  []vc08Kv
	cre []vc08Cre
}

var vc08Versions = []protocol.ConsensusVersion{protocol.ConsensusCurrentVersion, protocol.ConsensusFuture}

func vc08Bytes(b []byte) interface{} {
	if b == nil {
		return vSym("nil")
	}
	return b
}

func (d *vc08Delta) term() []interface{} {
	var a, r, k, c []interface{}
	a, r, k, c = vL(), vL(), vL(), vL()
	for _, x := range d.accts {
		a = append(a, vL(x.addr, x.a.algos, x.a.status, x.a.extra))
	}
	for _, x := range d.res {
		r = append(r, vL(x.addr, x.cidx, x.p, x.h))
	}
	for _, x := range d.kv {
		k = append(k, vL([]byte(x.key), vc08Bytes(x.data), vc08Bytes(x.old)))
	}
	for _, x := range d.cre {
		c = append(c, vL(x.cidx, x.created, x.creator, x.ctype))
	}
	return vL(vSym("b"), d.ver, a, r, k, c)
}

func (d *vc08Delta) stateDelta(rnd basics.Round, totals ledgercore.AccountTotals) (bookkeeping.Block, ledgercore.StateDelta) {
	blk := bookkeeping.Block{BlockHeader: bookkeeping.BlockHeader{Round: rnd}}
	blk.CurrentProtocol = vc08Versions[d.ver]
	delta := ledgercore.MakeStateDelta(&blk.BlockHeader, 0, len(d.accts)+1, 0)
	for _, x := range d.accts {
		delta.Accts.Upsert(vc08Addr(x.addr), x.a.core())
	}
	for _, x := range d.res {
		addr := vc08Addr(x.addr)
		if vc08IsApp(x.cidx) {
			var p ledgercore.AppParamsDelta
			var h ledgercore.AppLocalStateDelta
			if x.p >= 0 {
				p.Params = &basics.AppParams{StateSchemas: basics.StateSchemas{GlobalStateSchema: basics.StateSchema{NumUint: uint64(x.p)}}}
			} else if x.p == -2 {
				p.Deleted = true
			}
			if x.h >= 0 {
				h.LocalState = &basics.AppLocalState{Schema: basics.StateSchema{NumUint: uint64(x.h)}}
			} else if x.h == -2 {
				h.Deleted = true
			}
			delta.Accts.UpsertAppResource(addr, basics.AppIndex(x.cidx), p, h)
		} else {
			var p ledgercore.AssetParamsDelta
			var h ledgercore.AssetHoldingDelta
			if x.p >= 0 {
				p.Params = &basics.AssetParams{Total: uint64(x.p)}
			} else if x.p == -2 {
				p.Deleted = true
			}
			if x.h >= 0 {
				h.Holding = &basics.AssetHolding{Amount: uint64(x.h)}
			} else if x.h == -2 {
				h.Deleted = true
			}
			delta.Accts.UpsertAssetResource(addr, basics.AssetIndex(x.cidx), p, h)
		}
	}
	if len(d.kv) > 0 {
		delta.KvMods = make(map[string]ledgercore.KvValueDelta)
		for _, x := range d.kv {
			delta.KvMods[x.key] = ledgercore.KvValueDelta{Data: x.data, OldData: x.old}
		}
	}
	if len(d.cre) > 0 {
		delta.Creatables = make(map[basics.CreatableIndex]ledgercore.ModifiedCreatable)
		for _, x := range d.cre {
			delta.Creatables[basics.CreatableIndex(x.cidx)] = ledgercore.ModifiedCreatable{
				Ctype: basics.CreatableType(x.ctype), Created: x.created, Creator: vc08Addr(x.creator)}
		}
	}
	delta.Totals = totals
	return blk, delta
}

// ---------- the world under test ----------
type vc08World struct {
	t      *testing.T
	log    logging.Logger
	conf   config.Local
	ml     *mockLedgerForTracker
	au     *accountUpdates
	gate   *vc08Gate
	totals ledgercore.AccountTotals
	phase  int  // 0 idle, 1 at G1, 2 at G2
	sparse bool // only a random third of the lookups of a sweep are issued
	done   chan struct{}
	arm    atomic.Bool        // the next DB lookup of a reader is held before it returns
	nreads atomic.Int64       // DB lookups issued by readers so far
	heldCh chan chan struct{} // a reader reports that it is held (and how to release it)
	held   [3][]vc08Held      // held readers per space (0 accounts, 1 resources, 2 KV)
	ops    []interface{}

	// universe
	addrs    []uint64
	cidxs    []uint64
	keys     []string
	resPairs [][2]uint64 // if set: the (account, creatable) pairs to look up (default addrs x cidxs)
	creIdx   []uint64    // if set: the creatables whose creator is looked up (default cidxs)
	noLatest bool        // the generator does not keep the resource counters: no lookupLatest

	// generator's own view of the latest state (to produce well-formed deltas)
	gAcct  map[uint64]vc08Acct
	gRes   map[[2]uint64][2]int64 // -1 = absent
	gKv    map[string][]byte
	gCre   map[uint64]uint64 // created -> creator
	usedCi map[uint64]bool   // cidx ever created
	lastV  uint64
	nblk   int

	stats map[string]int
}

func (w *vc08World) openTrackers() {
	w.au = &accountUpdates{}
	w.au.initialize(w.conf)
	ao := &onlineAccounts{}
	ao.initialize(w.conf)
	w.ml.trackers = trackerRegistry{log: w.log}
	err := w.ml.trackers.initialize(w.ml, []ledgerTracker{w.gate, w.au, ao, &txTail{}}, w.conf)
	require.NoError(w.t, err)
	err = w.ml.trackers.loadFromDisk(w.ml)
	require.NoError(w.t, err)
	w.au.accountsq = &vc08Reader{AccountsReader: w.au.accountsq, w: w}
}

func (w *vc08World) latest() basics.Round { return w.ml.Latest() }

// wait for the commit syncer to reach a gate or to run out of work.  At most one goroutine sits in
// accountsWriting.Wait(), and it is always collected before the counter can go up from zero again.
func (w *vc08World) settle() int {
	if w.done == nil {
		w.done = make(chan struct{}, 1)
		go func(done chan struct{}, tr *trackerRegistry) {
			tr.waitAccountsWriting()
			done <- struct{}{}
		}(w.done, &w.ml.trackers)
	}
	select {
	case <-w.gate.g1:
		return 1
	case <-w.gate.g2:
		return 2
	case <-w.done:
		w.done = nil
		return 0
	case <-time.After(20 * time.Second):
		w.t.Fatalf("commit syncer stuck")
		return -1
	}
}

func (w *vc08World) opBlock(d *vc08Delta) {
	rnd := w.latest() + 1
	blk, delta := d.stateDelta(rnd, w.totals)
	w.ml.addBlock(blockEntry{block: blk}, delta)
	w.ops = append(w.ops, d.term())
	w.nblk++
}

func (w *vc08World) opSchedule(r uint64) {
	w.ml.trackers.mu.Lock()
	w.ml.trackers.lastFlushTime = time.Time{}
	w.ml.trackers.mu.Unlock()
	w.ml.trackers.committedUpTo(basics.Round(r))
	if w.phase == 0 {
		w.phase = w.settle()
	}
	w.ops = append(w.ops, vL(vSym("s"), r, w.phase))
}

func (w *vc08World) opCommit() {
	require.Equal(w.t, 1, w.phase)
	w.gate.g1r <- struct{}{}
	w.phase = w.settle()
	w.ops = append(w.ops, vL(vSym("c"), w.phase))
}

func (w *vc08World) opPost(reader func()) {
	require.Equal(w.t, 2, w.phase)
	w.gate.g2r <- struct{}{}
	w.phase = w.settle()
	w.ops = append(w.ops, vL(vSym("p"), w.phase))
	if reader != nil {
		w.dump() // the oracle judges the reader's answer against the state after postCommit
		reader()
	}
}

func (w *vc08World) opReload() {
	require.Equal(w.t, 0, w.phase)
	require.Equal(w.t, 0, w.nheld())
	w.latestSweep()
	w.gate.step = false
	w.ml.trackers.close()
	w.openTrackers()
	w.gate.step = true
	w.ops = append(w.ops, vL(vSym("r"), 0))
}

func (w *vc08World) opFlush() {
	w.au.flushCaches()
	w.ops = append(w.ops, vL(vSym("f")))
}

func (w *vc08World) opPrune(na, nr, nk int) {
	w.au.accountsMu.Lock()
	w.au.baseAccounts.flushPendingWrites()
	w.au.baseResources.flushPendingWrites()
	w.au.baseKVs.flushPendingWrites()
	w.au.baseAccounts.prune(na)
	w.au.baseResources.prune(nr)
	w.au.baseKVs.prune(nk)
	w.au.accountsMu.Unlock()
	w.ops = append(w.ops, vL(vSym("x"), na, nr, nk))
}

// ---------- readers held between their DB read and their cache write ----------
// au.accountsq is wrapped: when armed, the next lookup returns from the database, reports in and
// waits.  The real lookup code then continues (round re-check, writePending / writeNotFoundPending)
// whenever the harness releases it -- a reader goroutine preempted right after its SQL query.
type vc08Reader struct {
	trackerdb.AccountsReader
	w *vc08World
}

type vc08Held struct {
	rel  chan struct{}
	done chan interface{}
}

func (r *vc08Reader) hold() {
	r.w.nreads.Add(1)
	if r.w.arm.CompareAndSwap(true, false) {
		rel := make(chan struct{})
		r.w.heldCh <- rel
		<-rel
	}
}

func (r *vc08Reader) LookupAccount(addr basics.Address) (trackerdb.PersistedAccountData, error) {
	d, err := r.AccountsReader.LookupAccount(addr)
	r.hold()
	return d, err
}

func (r *vc08Reader) LookupResources(addr basics.Address, aidx basics.CreatableIndex, ctype basics.CreatableType) (trackerdb.PersistedResourcesData, error) {
	d, err := r.AccountsReader.LookupResources(addr, aidx, ctype)
	r.hold()
	return d, err
}

func (r *vc08Reader) LookupKeyValue(key string) (trackerdb.PersistedKVData, error) {
	d, err := r.AccountsReader.LookupKeyValue(key)
	r.hold()
	return d, err
}

func (r *vc08Reader) LookupCreator(cidx basics.CreatableIndex, ctype basics.CreatableType) (basics.Address, bool, basics.Round, error) {
	a, ok, rnd, err := r.AccountsReader.LookupCreator(cidx, ctype)
	r.w.nreads.Add(1)
	return a, ok, rnd, err
}

// issue a public lookup with the next DB read held; if the lookup is answered without the DB it is
// an ordinary query
func (w *vc08World) opStall(space int, rnd, a, c uint64, key string) bool {
	require.NotEqual(w.t, 2, w.phase)
	done := make(chan interface{}, 1)
	w.arm.Store(true)
	go func() {
		switch space {
		case 0:
			done <- w.qAcct(rnd, a)
		case 1:
			done <- w.qRes(rnd, a, c)
		default:
			done <- w.qKv(rnd, key)
		}
	}()
	select {
	case rel := <-w.heldCh:
		w.held[space] = append(w.held[space], vc08Held{rel, done})
		switch space {
		case 0:
			w.ops = append(w.ops, vL(vSym("sa"), rnd, a))
		case 1:
			w.ops = append(w.ops, vL(vSym("sr"), rnd, a, c))
		default:
			w.ops = append(w.ops, vL(vSym("sk"), rnd, []byte(key)))
		}
		w.stats["op_stall"]++
		return true
	case obs := <-done:
		w.arm.Store(false)
		w.count(obs)
		switch space {
		case 0:
			w.ops = append(w.ops, vL(vSym("qa"), rnd, a, obs))
		case 1:
			w.ops = append(w.ops, vL(vSym("qr"), rnd, a, c, obs))
		default:
			w.ops = append(w.ops, vL(vSym("qk"), rnd, []byte(key), obs))
		}
		return false
	case <-time.After(20 * time.Second):
		w.t.Fatalf("held lookup neither held nor answered")
		return false
	}
}

func (w *vc08World) opLand(space, n int) {
	h := w.held[space][n]
	w.held[space] = append(append([]vc08Held{}, w.held[space][:n]...), w.held[space][n+1:]...)
	close(h.rel)
	var obs interface{}
	select {
	case obs = <-h.done:
	case <-time.After(20 * time.Second):
		w.t.Fatalf("released reader never returned")
	}
	w.count(obs)
	w.ops = append(w.ops, vL(vSym("la"), space, n, obs))
	w.stats["op_land"]++
}

func (w *vc08World) nheld() int { return len(w.held[0]) + len(w.held[1]) + len(w.held[2]) }

func (w *vc08World) landAll() {
	for sp := 0; sp < 3; sp++ {
		for len(w.held[sp]) > 0 {
			w.opLand(sp, 0)
		}
	}
}

func vc08Err(err error) interface{} {
	var roe *RoundOffsetError
	var sde *StaleDatabaseRoundError
	var mde *MismatchingDatabaseRoundError
	switch {
	case errors.As(err, &roe):
		return vL(vSym("err"), 1)
	case errors.As(err, &mde):
		// the synchronised lookup waits on accountsReadCond here
		if mde.databaseRound > mde.memoryRound {
			return vSym("retry")
		}
		return vL(vSym("err"), 3)
	case errors.As(err, &sde):
		return vL(vSym("err"), 3)
	case strings.Contains(err.Error(), "too high"):
		return vL(vSym("err"), 2)
	}
	return vL(vSym("err"), 9, err.Error())
}

func vc08Half(isNil bool, v uint64) int64 {
	if isNil {
		return -1
	}
	return int64(v)
}

// the public (synchronised) lookups, except between transaction commit and postCommit where the
// unsynchronised variants report the point at which the public ones block
func (w *vc08World) qAcct(rnd, addr uint64) interface{} {
	var d ledgercore.AccountData
	var err error
	if w.phase == 2 {
		d, _, _, _, err = w.au.lookupWithoutRewards(basics.Round(rnd), vc08Addr(addr), false)
	} else {
		d, _, err = w.au.LookupWithoutRewards(basics.Round(rnd), vc08Addr(addr))
	}
	if err != nil {
		return vc08Err(err)
	}
	x := vc08AcctOf(d)
	return vL(vSym("ok"), x.algos, x.status, x.extra)
}

func (w *vc08World) qRes(rnd, addr, cidx uint64) interface{} {
	r, _, err := w.au.lookupResource(basics.Round(rnd), vc08Addr(addr), basics.CreatableIndex(cidx), vc08Ctype(cidx), w.phase != 2)
	if err != nil {
		return vc08Err(err)
	}
	var p, h int64
	if vc08IsApp(cidx) {
		p, h = -1, -1
		if r.AppParams != nil {
			p = int64(r.AppParams.GlobalStateSchema.NumUint)
		}
		if r.AppLocalState != nil {
			h = int64(r.AppLocalState.Schema.NumUint)
		}
		if r.AssetParams != nil || r.AssetHolding != nil {
			return vL(vSym("err"), 8)
		}
	} else {
		p, h = -1, -1
		if r.AssetParams != nil {
			p = int64(r.AssetParams.Total)
		}
		if r.AssetHolding != nil {
			h = int64(r.AssetHolding.Amount)
		}
		if r.AppParams != nil || r.AppLocalState != nil {
			return vL(vSym("err"), 8)
		}
	}
	return vL(vSym("ok"), p, h)
}

func (w *vc08World) qKv(rnd uint64, key string) interface{} {
	v, err := w.au.lookupKv(basics.Round(rnd), key, w.phase != 2)
	if err != nil {
		return vc08Err(err)
	}
	return vL(vSym("ok"), vc08Bytes(v))
}

func (w *vc08World) qCre(rnd, cidx, ctype uint64) interface{} {
	a, ok, err := w.au.getCreatorForRound(basics.Round(rnd), basics.CreatableIndex(cidx), basics.CreatableType(ctype), w.phase != 2)
	if err != nil {
		return vc08Err(err)
	}
	if !ok {
		return vL(vSym("ok"), 0, 0)
	}
	return vL(vSym("ok"), 1, vc08AddrNum(a))
}

// Ledger.LookupAccount's tracker part: the account at the latest round with all its resources.  Its
// cache writes are not modelled, so it is only issued where the caches are about to be discarded
// (before a reload, at the end of a run); the answers go to the oracle alone.
func (w *vc08World) latestSweep() {
	if w.phase == 2 || w.noLatest {
		return
	}
	for _, a := range w.addrs {
		d, rnd, _, err := w.au.lookupLatest(vc08Addr(a))
		if err != nil {
			w.ops = append(w.ops, vL(vSym("zl"), a, vc08Err(err)))
			continue
		}
		res := vL()
		for _, c := range w.cidxs {
			p, h := int64(-1), int64(-1)
			if vc08IsApp(c) {
				if x, ok := d.AppParams[basics.AppIndex(c)]; ok {
					p = int64(x.GlobalStateSchema.NumUint)
				}
				if x, ok := d.AppLocalStates[basics.AppIndex(c)]; ok {
					h = int64(x.Schema.NumUint)
				}
			} else {
				if x, ok := d.AssetParams[basics.AssetIndex(c)]; ok {
					p = int64(x.Total)
				}
				if x, ok := d.Assets[basics.AssetIndex(c)]; ok {
					h = int64(x.Amount)
				}
			}
			res = append(res, vL(c, p, h))
		}
		nres := len(d.AppParams) + len(d.AppLocalStates) + len(d.AssetParams) + len(d.Assets)
		w.ops = append(w.ops, vL(vSym("zl"), a, vL(vSym("ok"), uint64(rnd), d.MicroAlgos.Raw, uint64(d.Status), vc08AddrNum(d.AuthAddr), res, nres)))
		w.stats["latest_lookups"]++
	}
}

func (w *vc08World) dump() {
	au := w.au
	au.accountsMu.RLock()
	defer au.accountsMu.RUnlock()
	var ma, mr, mk, mc, la, lr, lk []interface{}
	ma, mr, mk, mc, la, lr, lk = vL(), vL(), vL(), vL(), vL(), vL(), vL()
	for a, m := range au.accounts {
		ma = append(ma, vL(vc08AddrNum(a), m.ndeltas))
	}
	for k, m := range au.resources {
		mr = append(mr, vL(vc08AddrNum(k.address), uint64(k.index), m.ndeltas))
	}
	for k, m := range au.kvStore {
		mk = append(mk, vL([]byte(k), m.ndeltas))
	}
	for c, m := range au.creatables {
		mc = append(mc, vL(uint64(c), m.Ndeltas))
	}
	for a, n := range au.baseAccounts.accounts {
		la = append(la, vL(vc08AddrNum(a), uint64(n.Value.Round)))
	}
	for k, n := range au.baseResources.resources {
		lr = append(lr, vL(vc08AddrNum(k.address), uint64(k.index), uint64(n.Value.Round)))
	}
	for k, n := range au.baseKVs.kvs {
		lk = append(lk, vL([]byte(k), uint64(n.Value.Round)))
	}
	w.ops = append(w.ops, vL(vSym("d"), uint64(au.cachedDBRound), len(au.deltas), ma, mr, mk, mc, la, lr, lk))
}

// every key at every round around the servable window; returns the queries that would block
type vc08Blocked struct {
	kind         string
	rnd, a, b, c uint64
	key          string
}

func (w *vc08World) sweep(r *vRand, dense bool) (blocked []vc08Blocked) {
	skip := func() bool { return w.sparse && r.Intn(3) != 0 }
	R := uint64(w.au.cachedDBRound)
	lat := uint64(w.au.latest())
	lo := uint64(0)
	if R > 0 {
		lo = R - 1
	}
	for rnd := lo; rnd <= lat+1; rnd++ {
		if !dense && rnd != R && rnd != lat && r.Intn(3) != 0 {
			continue
		}
		for _, a := range w.addrs {
			if skip() {
				continue
			}
			obs := w.qAcct(rnd, a)
			w.count(obs)
			if obs == vSym("retry") {
				blocked = append(blocked, vc08Blocked{kind: "qa", rnd: rnd, a: a})
			}
			w.ops = append(w.ops, vL(vSym("qa"), rnd, a, obs))
		}
		pairs := w.resPairs
		if pairs == nil {
			for _, a := range w.addrs {
				for _, c := range w.cidxs {
					pairs = append(pairs, [2]uint64{a, c})
				}
			}
		}
		for _, pr := range pairs {
			a, c := pr[0], pr[1]
			if skip() {
				continue
			}
			obs := w.qRes(rnd, a, c)
			w.count(obs)
			if obs == vSym("retry") {
				blocked = append(blocked, vc08Blocked{kind: "qr", rnd: rnd, a: a, b: c})
			}
			w.ops = append(w.ops, vL(vSym("qr"), rnd, a, c, obs))
		}
		for _, k := range w.keys {
			if skip() {
				continue
			}
			obs := w.qKv(rnd, k)
			w.count(obs)
			if obs == vSym("retry") {
				blocked = append(blocked, vc08Blocked{kind: "qk", rnd: rnd, key: k})
			}
			w.ops = append(w.ops, vL(vSym("qk"), rnd, []byte(k), obs))
		}
		cres := w.creIdx
		if cres == nil {
			cres = w.cidxs
		}
		for _, c := range cres {
			for ct := uint64(0); ct < 2; ct++ {
				if skip() {
					continue
				}
				obs := w.qCre(rnd, c, ct)
				w.count(obs)
				if obs == vSym("retry") {
					blocked = append(blocked, vc08Blocked{kind: "qc", rnd: rnd, a: c, b: ct})
				}
				w.ops = append(w.ops, vL(vSym("qc"), rnd, c, ct, obs))
			}
		}
	}
	return
}

func (w *vc08World) count(obs interface{}) {
	switch x := obs.(type) {
	case vSym:
		w.stats["obs_"+string(x)]++
		if w.phase == 2 {
			w.stats["window_retry"]++
		}
	case []interface{}:
		w.stats["obs_"+string(x[0].(vSym))]++
		if w.phase == 2 && x[0].(vSym) == "ok" {
			w.stats["window_ok"]++
		}
	}
}

// a synchronised public lookup issued while the DB is ahead of memory: it must block until
// postCommit and then answer.  lookupWithoutRewards / lookupKv move their round variable to the
// newest round they know when no in-memory delta touches the key, so the retry after postCommit
// runs for that round (eff); the answer must still be the one for the round asked for.
// Returns the function to run right after postCommit: it emits the retry as a plain query at eff
// (for the model) and the original question with the final answer (z.., for the oracle only).
func (w *vc08World) blockedReader(b vc08Blocked) func() {
	type result struct{ obs interface{} }
	ch := make(chan result, 1)
	eff := b.rnd
	w.au.accountsMu.RLock()
	newest := uint64(w.au.cachedDBRound) + uint64(len(w.au.deltas))
	switch b.kind {
	case "qa":
		if _, in := w.au.accounts[vc08Addr(b.a)]; !in {
			eff = newest
		}
	case "qk":
		if _, in := w.au.kvStore[b.key]; !in {
			eff = newest
		}
	}
	w.au.accountsMu.RUnlock()
	reads0 := w.nreads.Load()
	go func() {
		var obs interface{}
		switch b.kind {
		case "qa":
			d, _, err := w.au.LookupWithoutRewards(basics.Round(b.rnd), vc08Addr(b.a))
			if err != nil {
				obs = vc08Err(err)
			} else {
				x := vc08AcctOf(d)
				obs = vL(vSym("ok"), x.algos, x.status, x.extra)
			}
		case "qk":
			v, err := w.au.LookupKv(basics.Round(b.rnd), b.key)
			if err != nil {
				obs = vc08Err(err)
			} else {
				obs = vL(vSym("ok"), vc08Bytes(v))
			}
		case "qc":
			a, ok, err := w.au.GetCreatorForRound(basics.Round(b.rnd), basics.CreatableIndex(b.a), basics.CreatableType(b.b))
			if err != nil {
				obs = vc08Err(err)
			} else if !ok {
				obs = vL(vSym("ok"), 0, 0)
			} else {
				obs = vL(vSym("ok"), 1, vc08AddrNum(a))
			}
		}
		ch <- result{obs}
	}()
	// wait until it has seen the database ahead of its memory round (its DB read of the first
	// iteration); it must not answer before postCommit
	deadline := time.Now().Add(20 * time.Second)
	for w.nreads.Load() == reads0 {
		if time.Now().After(deadline) {
			w.t.Fatalf("blocked reader never reached the database")
		}
		time.Sleep(50 * time.Microsecond)
	}
	select {
	case <-ch:
		w.t.Fatalf("synchronised lookup %+v answered while the DB was ahead of memory", b)
	case <-time.After(200 * time.Microsecond):
		w.stats["blocked_readers"]++
	}
	return func() {
		var res result
		select {
		case res = <-ch:
		case <-time.After(20 * time.Second):
			w.t.Fatalf("blocked reader never woke up")
		}
		w.count(res.obs)
		switch b.kind {
		case "qa":
			w.ops = append(w.ops, vL(vSym("qa"), eff, b.a, res.obs), vL(vSym("za"), b.rnd, b.a, res.obs))
		case "qk":
			w.ops = append(w.ops, vL(vSym("qk"), eff, []byte(b.key), res.obs), vL(vSym("zk"), b.rnd, []byte(b.key), res.obs))
		case "qc":
			w.ops = append(w.ops, vL(vSym("qc"), eff, b.a, b.b, res.obs), vL(vSym("zc"), b.rnd, b.a, b.b, res.obs))
		}
	}
}

// ---------- generator of well-formed deltas ----------
func (w *vc08World) genDelta(r *vRand) *vc08Delta {
	d := &vc08Delta{}
	if r.Intn(7) == 0 {
		w.lastV = uint64(r.Intn(2))
	}
	d.ver = w.lastV
	touched := map[uint64]bool{}
	touchAcct := func(a uint64, x vc08Acct) {
		if touched[a] {
			for i := range d.accts {
				if d.accts[i].addr == a {
					d.accts[i].a = x
				}
			}
		} else {
			touched[a] = true
			d.accts = append(d.accts, struct {
				addr uint64
				a    vc08Acct
			}{a, x})
		}
		w.gAcct[a] = x
	}
	// resources: remember the value before the round, emit one record per touched pair at the end
	preRes := map[[2]uint64][2]int64{}
	var resOrder [][2]uint64
	setRes := func(a, c uint64, p, h int64) {
		k := [2]uint64{a, c}
		if _, seen := preRes[k]; !seen {
			old, had := w.gRes[k]
			if !had {
				old = [2]int64{-1, -1}
			}
			preRes[k] = old
			resOrder = append(resOrder, k)
		}
		if p < 0 && h < 0 {
			delete(w.gRes, k)
		} else {
			w.gRes[k] = [2]int64{p, h}
		}
	}
	kvIdx := map[string]int{}
	setKv := func(key string, data []byte) {
		if i, ok := kvIdx[key]; ok {
			d.kv[i].data = data
		} else {
			kvIdx[key] = len(d.kv)
			d.kv = append(d.kv, vc08Kv{key, data, w.gKv[key]})
		}
		if data == nil {
			delete(w.gKv, key)
		} else {
			w.gKv[key] = data
		}
	}
	creIdx := map[uint64]bool{}
	n := r.Intn(5)
	if r.Intn(6) == 0 {
		n = 0 // empty block
	}
	for i := 0; i < n; i++ {
		a := w.addrs[r.Intn(len(w.addrs)-1)] // the last address never exists
		cur := w.gAcct[a]
		switch r.Intn(12) {
		case 0, 1, 2: // payment / funding
			x := cur
			x.algos = uint64(1 + r.Intn(1000))
			if r.Intn(8) == 0 {
				x.status = 2
			}
			touchAcct(a, x)
		case 3: // rekey
			if !cur.empty() {
				x := cur
				x.extra = x.extra&^3 | uint64(r.Intn(4))
				touchAcct(a, x)
			}
		case 4: // close: the account and everything it holds disappears
			if !cur.empty() {
				for _, c := range w.cidxs {
					if _, ok := w.gRes[[2]uint64{a, c}]; ok {
						if cr, isCr := w.gCre[c]; isCr && cr == a && !creIdx[c] {
							creIdx[c] = true
							d.cre = append(d.cre, vc08Cre{c, false, a, c % 2})
							delete(w.gCre, c)
						}
						setRes(a, c, -1, -1)
					}
				}
				touchAcct(a, vc08Acct{})
			}
		case 5, 6: // asset / app lifecycle on a live account
			if cur.empty() {
				break
			}
			c := w.cidxs[r.Intn(len(w.cidxs))]
			k := [2]uint64{a, c}
			old, had := w.gRes[k]
			if !had {
				old = [2]int64{-1, -1}
			}
			_, created := w.gCre[c]
			switch {
			case !created && !w.usedCi[c] && !creIdx[c]: // create
				w.usedCi[c] = true
				creIdx[c] = true
				w.gCre[c] = a
				d.cre = append(d.cre, vc08Cre{c, true, a, c % 2})
				h := int64(-1)
				if r.Bool() {
					h = int64(r.Intn(3))
				}
				setRes(a, c, int64(r.Intn(3)), h)
				touchAcct(a, w.gAcct[a])
			case created && w.gCre[c] == a && old[0] >= 0 && r.Intn(3) == 0 && !creIdx[c]: // destroy
				creIdx[c] = true
				delete(w.gCre, c)
				d.cre = append(d.cre, vc08Cre{c, false, a, c % 2})
				nh := old[1]
				if r.Bool() {
					nh = -1
				}
				setRes(a, c, -1, nh)
				touchAcct(a, w.gAcct[a])
			case old[1] < 0: // opt in
				setRes(a, c, old[0], int64(r.Intn(3)))
				touchAcct(a, w.gAcct[a])
			case r.Intn(3) == 0: // opt out / close out
				setRes(a, c, old[0], -1)
				touchAcct(a, w.gAcct[a])
			default: // transfer / state change (params change for the creator)
				np := old[0]
				if np >= 0 && r.Bool() {
					np = int64(r.Intn(5))
				}
				setRes(a, c, np, int64(r.Intn(5)))
			}
		default: // boxes
			key := w.keys[r.Intn(len(w.keys)-1)] // the last key never exists
			cur, has := w.gKv[key]
			switch {
			case !has:
				setKv(key, r.Bytes(r.Intn(3))[:]) // may be the empty (non-nil) value
			case r.Intn(3) == 0:
				setKv(key, nil)
			case r.Intn(4) == 0:
				setKv(key, append([]byte{}, cur...)) // rewritten with the same value
			default:
				setKv(key, r.Bytes(1+r.Intn(2)))
			}
		}
	}
	for _, k := range resOrder {
		old := preRes[k]
		cur, has := w.gRes[k]
		if !has {
			cur = [2]int64{-1, -1}
		}
		enc := func(nv, ov int64) int64 {
			if nv >= 0 {
				return nv
			}
			if ov >= 0 || r.Intn(2) == 0 {
				return -2 // deleted (also legal when it was absent)
			}
			return -1 // nil & not deleted: only when it was absent before the round
		}
		d.res = append(d.res, vc08Res{k[0], k[1], enc(cur[0], old[0]), enc(cur[1], old[1])})
	}
	// the resource counters of the accounts whose resources changed (the evaluator keeps them in step)
	for _, k := range resOrder {
		a := k[0]
		x := w.gAcct[a]
		if x.empty() {
			continue
		}
		var tap, ta, tapp, tals uint64
		for _, c := range w.cidxs {
			if v, ok := w.gRes[[2]uint64{a, c}]; ok {
				if vc08IsApp(c) {
					if v[0] >= 0 {
						tapp++
					}
					if v[1] >= 0 {
						tals++
					}
				} else {
					if v[0] >= 0 {
						tap++
					}
					if v[1] >= 0 {
						ta++
					}
				}
			}
		}
		x.extra = vc08Extra(x.extra&3, tap, ta, tapp, tals)
		touchAcct(a, x)
	}
	return d
}

type vc08Gen struct {
	addr uint64
	a    vc08Acct
}

func vc08NewWorld(t *testing.T, stats map[string]int, lookback uint64, disableCache bool, genAccts []vc08Gen) (w *vc08World, gen []interface{}) {
	w = &vc08World{t: t, stats: stats}
	w.log = logging.TestingLog(t)
	w.log.SetLevel(logging.Fatal) // the window lookups log errors by design
	w.conf = config.GetDefaultLocal()
	w.conf.MaxAcctLookback = lookback
	w.conf.DisableLedgerLRUCache = disableCache
	w.addrs = []uint64{1, 2, 3, 4, 9}
	w.cidxs = []uint64{10, 11, 12, 13}
	w.keys = []string{"k\x00a", "k\x00b", "q", "zz"}
	w.gAcct = map[uint64]vc08Acct{}
	w.gRes = map[[2]uint64][2]int64{}
	w.gKv = map[string][]byte{}
	w.gCre = map[uint64]uint64{}
	w.usedCi = map[uint64]bool{}

	genesis := map[basics.Address]basics.AccountData{}
	gen = vL()
	for _, g := range genAccts {
		w.gAcct[g.addr] = g.a
		genesis[vc08Addr(g.addr)] = basics.AccountData{MicroAlgos: basics.MicroAlgos{Raw: g.a.algos},
			Status: basics.Status(g.a.status), AuthAddr: vc08Addr(g.a.extra & 3)}
		gen = append(gen, vL(g.addr, g.a.algos, g.a.status, g.a.extra))
	}
	w.ml = makeMockLedgerForTrackerWithLogger(t, false, 1, protocol.ConsensusCurrentVersion,
		[]map[basics.Address]basics.AccountData{genesis}, w.log)
	w.totals = w.ml.deltas[0].Totals
	_, err := trackerDBInitialize(w.ml, false, ".")
	require.NoError(t, err)
	w.gate = &vc08Gate{g1: make(chan struct{}), g1r: make(chan struct{}), g2: make(chan struct{}), g2r: make(chan struct{})}
	w.heldCh = make(chan chan struct{})
	w.openTrackers()
	w.gate.step = true
	return
}

func (w *vc08World) close() {
	w.gate.step = false
	for sp := 0; sp < 3; sp++ {
		for _, h := range w.held[sp] {
			close(h.rel)
		}
		w.held[sp] = nil
	}
	w.ml.Close()
}

func (w *vc08World) emit(out *vOut, gen []interface{}) {
	na, nr, nk := 0, 0, 0
	if !w.conf.DisableLedgerLRUCache {
		na, nr, nk = baseAccountsPendingAccountsBufferSize, baseResourcesPendingAccountsBufferSize, baseKVPendingBufferSize
	}
	out.Case(vSym("c08"), vL(w.conf.MaxAcctLookback, !w.conf.DisableLedgerLRUCache, na, nr, nk), gen, w.ops)
}

func vc08RunCase(t *testing.T, r *vRand, caseNo int, nops int, out *vOut, stats map[string]int) {
	var genAccts []vc08Gen
	lookback := uint64(r.Intn(5))
	disable := r.Intn(4) == 0
	for _, a := range []uint64{1, 2, 3}[:2+r.Intn(2)] {
		genAccts = append(genAccts, vc08Gen{a, vc08Acct{algos: uint64(1 + r.Intn(1000))}})
	}
	w, gen := vc08NewWorld(t, stats, lookback, disable, genAccts)
	defer w.close()

	dense := caseNo%4 == 0
	w.sparse = caseNo%4 == 2
	rare := caseNo%4 == 3 // most operations are not followed by lookups at all
	w.dump()
	w.sweep(r, dense)
	var pendingReader func()
	var lastBlocked []vc08Blocked
	for i := 0; i < nops; i++ {
		lat := uint64(w.latest())
		R := uint64(w.au.cachedDBRound)
		lb := w.conf.MaxAcctLookback
		c := r.Intn(100)
		switch {
		case w.phase == 2 && c < 45:
			// one public lookup that has to sit out the window (resources share the code path)
			var cand []vc08Blocked
			for _, b := range lastBlocked {
				if b.kind != "qr" {
					cand = append(cand, b)
				}
			}
			if len(cand) > 0 && r.Intn(3) != 0 {
				pendingReader = w.blockedReader(cand[r.Intn(len(cand))])
			}
			w.opPost(pendingReader)
			pendingReader = nil
			stats["op_post"]++
		case w.phase == 1 && c < 45:
			w.opCommit()
			stats["op_commit"]++
		case w.phase != 2 && c < 60 && lat >= lb && lat > R:
			// committedUpTo for a round that makes progress (mostly) or not
			rr := lat - uint64(r.Intn(int(lat-R)+1))
			if r.Intn(6) == 0 {
				rr = uint64(r.Intn(int(lat) + 1))
			}
			w.opSchedule(rr)
			stats["op_sched"]++
		case w.phase == 0 && c >= 60 && c < 64 && w.nheld() == 0:
			w.opReload()
			stats["op_reload"]++
		case w.phase != 2 && c >= 72 && c < 77:
			// a reader held after its DB read (oldest servable round: most likely to reach the DB)
			rnd := R
			if r.Intn(3) == 0 {
				rnd = R + uint64(r.Intn(int(lat-R)+1))
			}
			switch r.Intn(3) {
			case 0:
				w.opStall(0, rnd, w.addrs[r.Intn(len(w.addrs))], 0, "")
			case 1:
				w.opStall(1, rnd, w.addrs[r.Intn(len(w.addrs))], w.cidxs[r.Intn(len(w.cidxs))], "")
			default:
				w.opStall(2, rnd, 0, 0, w.keys[r.Intn(len(w.keys))])
			}
		case c >= 77 && c < 81 && w.nheld() > 0:
			sp := r.Intn(3)
			for len(w.held[sp]) == 0 {
				sp = (sp + 1) % 3
			}
			w.opLand(sp, r.Intn(len(w.held[sp])))
		case c >= 64 && c < 67:
			w.opFlush()
			stats["op_flush"]++
		case c >= 67 && c < 72:
			switch r.Intn(3) {
			case 0:
				w.opPrune(0, 0, 0)
			case 1:
				w.opPrune(r.Intn(4), 0, 1000)
			default:
				w.opPrune(r.Intn(4), 1000, 0)
			}
			stats["op_prune"]++
		default:
			w.opBlock(w.genDelta(r))
			stats["op_block"]++
		}
		w.dump()
		if rare && r.Intn(4) != 0 {
			lastBlocked = nil
			continue
		}
		lastBlocked = w.sweep(r, dense)
		if w.phase == 2 {
			stats["windows_swept"]++
		}
	}
	// drain
	w.landAll()
	w.dump()
	for w.phase != 0 {
		if w.phase == 1 {
			w.opCommit()
		} else {
			w.opPost(pendingReader)
			pendingReader = nil
		}
		w.dump()
		w.sweep(r, false)
	}
	w.latestSweep()
	w.emit(out, gen)
	stats["cases"]++
	stats["ops"] += len(w.ops)
	stats["blocks"] += w.nblk
}

func TestVerifC08(t *testing.T) {
	if os.Getenv("VERIF_OUT") == "" {
		t.Skip("VERIF_OUT not set")
	}
	old := debug.SetGCPercent(400)
	defer debug.SetGCPercent(old)
	ncases := vEnvInt("VERIF_C08_CASES", 24)
	nops := vEnvInt("VERIF_C08_OPS", 45)
	r := vNewRand(0xc08)
	out := vOpen("cases.txt")
	defer out.Close()
	stats := map[string]int{}
	t0 := time.Now()
	for i := 0; i < ncases; i++ {
		t.Run(fmt.Sprintf("case%d", i), func(t *testing.T) {
			vc08RunCase(t, r, i, nops, out, stats)
		})
		if i%4 == 3 {
			runtime.GC()
			debug.FreeOSMemory()
		}
	}
	st := map[string]interface{}{"seconds": time.Since(t0).Seconds()}
	keys := make([]string, 0, len(stats))
	for k := range stats {
		keys = append(keys, k)
	}
	sort.Strings(keys)
	for _, k := range keys {
		st[k] = stats[k]
	}
	vStats(st)
}

// The two ill-formed histories of C08_kv_olddata_needed / C08_res_keep_needed on the real code: the
// answers differ before and after the flush exactly as in the model (the checker does not apply the
// property to histories the evaluator cannot produce, but it still compares model and code).
func TestVerifC08NonWF(t *testing.T) {
	if os.Getenv("VERIF_OUT") == "" {
		t.Skip("VERIF_OUT not set")
	}
	out := vOpen("cases_nonwf.txt")
	defer out.Close()
	stats := map[string]int{}
	r := vNewRand(0xc08f)
	commitAll := func(w *vc08World, rnd uint64) {
		w.opSchedule(rnd)
		w.dump()
		w.sweep(r, true)
		w.opCommit()
		w.dump()
		w.sweep(r, true)
		w.opPost(nil)
		w.dump()
		w.sweep(r, true)
	}
	t.Run("kv_olddata", func(t *testing.T) {
		w, gen := vc08NewWorld(t, stats, 0, false, []vc08Gen{{1, vc08Acct{algos: 100}}})
		defer w.close()
		w.dump()
		d := &vc08Delta{kv: []vc08Kv{{"q", []byte{1}, []byte{1}}}} // OldData claims the key already held 01
		w.opBlock(d)
		w.dump()
		before := w.qKv(1, "q")
		w.sweep(r, true)
		commitAll(w, 1)
		after := w.qKv(1, "q")
		require.Equal(t, vT(vSym("ok"), []byte{1}), vT(before.([]interface{})...))
		require.Equal(t, vT(vSym("ok"), vSym("nil")), vT(after.([]interface{})...))
		w.emit(out, gen)
	})
	t.Run("res_keep", func(t *testing.T) {
		w, gen := vc08NewWorld(t, stats, 0, false, []vc08Gen{{1, vc08Acct{algos: 100}}})
		defer w.close()
		w.dump()
		d1 := &vc08Delta{res: []vc08Res{{1, 10, 7, 3}}}
		d1.accts = append(d1.accts, struct {
			addr uint64
			a    vc08Acct
		}{1, vc08Acct{algos: 5}})
		w.opBlock(d1)
		w.dump()
		w.opBlock(&vc08Delta{res: []vc08Res{{1, 10, 7, -1}}}) // holding: nil and not deleted although present
		w.dump()
		before := w.qRes(2, 1, 10)
		w.sweep(r, true)
		commitAll(w, 2)
		after := w.qRes(2, 1, 10)
		require.Equal(t, vT(vSym("ok"), -1+8, -1), vT(before.([]interface{})...))
		require.Equal(t, vT(vSym("ok"), 7, 3), vT(after.([]interface{})...))
		w.emit(out, gen)
	})
}

// A reader held across a commit and a turnover of the base cache: with the original
// flushPendingWrites its late cache write plants a stale entry (C08_late_pending_refuted, signature
// late_pending_cache_write); with flushPendingWritesSince it is dropped.  The eviction by a large
// working set is stood in for by a prune of the base caches (TestVerifC08LatePendingTurnover does it
// with a real 100002-account block).
func TestVerifC08LatePending(t *testing.T) {
	if os.Getenv("VERIF_OUT") == "" {
		t.Skip("VERIF_OUT not set")
	}
	out := vOpen("cases_late.txt")
	defer out.Close()
	stats := map[string]int{}
	commitAll := func(w *vc08World, rnd uint64) {
		w.opSchedule(rnd)
		w.dump()
		w.opCommit()
		w.dump()
		w.opPost(nil)
		w.dump()
	}
	acct := func(a, algos uint64) *vc08Delta {
		d := &vc08Delta{}
		d.accts = append(d.accts, struct {
			addr uint64
			a    vc08Acct
		}{a, vc08Acct{algos: algos}})
		return d
	}
	t.Run("data", func(t *testing.T) {
		w, gen := vc08NewWorld(t, stats, 0, false, []vc08Gen{{1, vc08Acct{algos: 100}}})
		defer w.close()
		w.dump()
		require.True(t, w.opStall(0, 0, 1, 0, "")) // reads (1, 100) at DB round 0 and is held
		w.opBlock(acct(1, 200))
		w.dump()
		commitAll(w, 1)
		w.opPrune(0, 0, 0)
		w.dump()
		w.opLand(0, 0)
		w.dump()
		w.opBlock(&vc08Delta{}) // flushPendingWrites
		w.dump()
		obs := w.qAcct(2, 1)
		w.ops = append(w.ops, vL(vSym("qa"), 2, 1, obs))
		stats["late_data_answer_"+vT(obs.([]interface{})...)]++
		w.emit(out, gen)
	})
	t.Run("notfound", func(t *testing.T) {
		w, gen := vc08NewWorld(t, stats, 0, false, []vc08Gen{{1, vc08Acct{algos: 100}}})
		defer w.close()
		w.dump()
		require.True(t, w.opStall(0, 0, 3, 0, "")) // account 3 does not exist at DB round 0
		w.opBlock(acct(3, 50))
		w.dump()
		commitAll(w, 1)
		w.opPrune(0, 0, 0)
		w.dump()
		w.opLand(0, 0)
		w.dump()
		w.opFlush() // Ledger.FlushCaches (called by every Eval)
		w.dump()
		obs := w.qAcct(1, 3)
		w.ops = append(w.ops, vL(vSym("qa"), 1, 3, obs))
		stats["late_notfound_answer_"+vT(obs.([]interface{})...)]++
		w.emit(out, gen)
	})
	t.Run("kv", func(t *testing.T) {
		w, gen := vc08NewWorld(t, stats, 0, false, []vc08Gen{{1, vc08Acct{algos: 100}}})
		defer w.close()
		w.dump()
		require.True(t, w.opStall(2, 0, 0, 0, "q"))
		w.opBlock(&vc08Delta{kv: []vc08Kv{{"q", []byte{5}, nil}}})
		w.dump()
		commitAll(w, 1)
		w.opPrune(0, 0, 0)
		w.dump()
		w.opLand(2, 0)
		w.dump()
		w.opBlock(&vc08Delta{})
		w.dump()
		obs := w.qKv(2, "q")
		w.ops = append(w.ops, vL(vSym("qk"), 2, []byte("q"), obs))
		stats["late_kv_answer_"+vT(obs.([]interface{})...)]++
		w.emit(out, gen)
	})
	st := map[string]interface{}{}
	for k, v := range stats {
		st[k] = v
	}
	b, _ := json.MarshalIndent(st, "", " ")
	os.WriteFile(filepath.Join(os.Getenv("VERIF_OUT"), "stats_late.json"), b, 0644)
}

// The late cache write with the eviction done by the code itself: a 100002-account block goes
// through the base account cache (prune slack baseAccountsPendingAccountsBufferSize) while the
// reader is held.  Too large for the model; the outcome is recorded in stats_late_turnover.json
// (thorough tier only).
func TestVerifC08LatePendingTurnover(t *testing.T) {
	if os.Getenv("VERIF_OUT") == "" || vTier() != "thorough" {
		t.Skip("thorough tier only")
	}
	stats := map[string]int{}
	w, _ := vc08NewWorld(t, stats, 0, false, []vc08Gen{{1, vc08Acct{algos: 100}}})
	defer w.close()
	commitAll := func(rnd uint64) {
		w.opSchedule(rnd)
		w.opCommit()
		w.opPost(nil)
	}
	require.True(t, w.opStall(0, 0, 1, 0, ""))
	d := &vc08Delta{}
	d.accts = append(d.accts, struct {
		addr uint64
		a    vc08Acct
	}{1, vc08Acct{algos: 200}})
	w.opBlock(d)
	commitAll(1)
	big := &vc08Delta{}
	for i := uint64(0); i < baseAccountsPendingAccountsBufferSize+2; i++ {
		big.accts = append(big.accts, struct {
			addr uint64
			a    vc08Acct
		}{1000 + i, vc08Acct{algos: 1}})
	}
	w.ops = nil
	w.opBlock(big)
	w.ops = nil
	commitAll(2)
	w.opBlock(&vc08Delta{}) // newBlockImpl prunes the base cache
	_, cached := w.au.baseAccounts.read(vc08Addr(1))
	w.opLand(0, 0)
	w.opBlock(&vc08Delta{}) // flush
	obs := w.qAcct(4, 1)
	st := map[string]interface{}{
		"account_evicted_by_turnover": !cached,
		"answer_after_late_write":     vT(obs.([]interface{})...),
		"history_says":                "(ok 200 0 0)",
	}
	b, _ := json.MarshalIndent(st, "", " ")
	os.WriteFile(filepath.Join(os.Getenv("VERIF_OUT"), "stats_late_turnover.json"), b, 0644)
}

// Every short write pattern inside and across commit ranges.  For each length L <= 4 and each cut
// c in 0..L one tracker stack runs, in parallel on separate keys, all 2^L patterns over
// {write (create / modify), delete} for an account, a resource, a box and a creatable, once starting
// from a key that is already in the DB and once from a key that is not: round 1 creates the
// "present" keys and is committed; rounds 2..L+1 apply the patterns; then rounds 2..c+1 are
// committed in one flush and the rest in a second one (c = 0 / c = L: a single flush).  Everything
// is looked up at every round after every step, and again after a reload.  (A creatable pattern is
// left out of a stack when a flush would have to INSERT an index that is in the table at its start:
// that SQL error would abort the flush for all the other keys.)
func TestVerifC08Patterns(t *testing.T) {
	if os.Getenv("VERIF_OUT") == "" {
		t.Skip("VERIF_OUT not set")
	}
	out := vOpen("cases_patterns.txt")
	defer out.Close()
	stats := map[string]int{}
	r := vNewRand(0xc08a)
	maxL := vEnvInt("VERIF_C08_PATLEN", 4)
	full := vEnvInt("VERIF_C08_PATFULL", 0) == 1 // quick: length 4 only with the cuts 0, 2, 4
	const holder = 1                             // the account that owns every resource / creatable
	for L := 1; L <= maxL; L++ {
		for cut := 0; cut <= L; cut++ {
			if L == 4 && !full && cut%2 == 1 {
				continue
			}
			t.Run(fmt.Sprintf("L%d_cut%d", L, cut), func(t *testing.T) {
				w, gen := vc08NewWorld(t, stats, 0, (L+cut)%3 == 2, []vc08Gen{{holder, vc08Acct{algos: 1000}}})
				defer w.close()
				npat := 1 << uint(L)
				type slot struct {
					pat     int
					present bool
					id      uint64
				}
				var slots []slot
				for p := 0; p < npat; p++ {
					slots = append(slots, slot{p, true, uint64(2 * p)}, slot{p, false, uint64(2*p + 1)})
				}
				isWrite := func(p, step int) bool { return p>>uint(step)&1 == 1 }
				// ranges of pattern steps flushed together
				ranges := [][2]int{{0, cut}, {cut, L}}
				creOK := func(sl slot) bool {
					cur := sl.present
					for _, rg := range ranges {
						if rg[0] == rg[1] {
							continue
						}
						start := cur
						for st := rg[0]; st < rg[1]; st++ {
							cur = isWrite(sl.pat, st)
						}
						if start && cur {
							return false
						}
					}
					return true
				}
				acctOf := func(sl slot) uint64 { return 100 + sl.id }
				resOf := func(sl slot) uint64 { return 200 + sl.id } // even ids: assets, odd: apps
				creOf := func(sl slot) uint64 { return 400 + sl.id }
				keyOf := func(sl slot) string { return fmt.Sprintf("p%02d", sl.id) }
				w.addrs = []uint64{holder, 9}
				w.keys, w.resPairs, w.creIdx = nil, nil, nil
				for _, sl := range slots {
					w.addrs = append(w.addrs, acctOf(sl))
					w.keys = append(w.keys, keyOf(sl))
					w.resPairs = append(w.resPairs, [2]uint64{holder, resOf(sl)})
					if creOK(sl) {
						w.creIdx = append(w.creIdx, creOf(sl))
					}
				}
				w.cidxs = w.creIdx
				w.noLatest = true
				step := func() {
					w.dump()
					w.sweep(r, true)
				}
				// generator-side current values
				kv := map[string][]byte{}
				resCur := map[uint64]bool{}
				ser := uint64(0)
				apply := func(d *vc08Delta, sl slot, write bool) {
					ser++
					if write {
						d.accts = append(d.accts, struct {
							addr uint64
							a    vc08Acct
						}{acctOf(sl), vc08Acct{algos: 10 + ser}})
						d.res = append(d.res, vc08Res{holder, resOf(sl), int64(ser % 7), int64(ser % 5)})
						resCur[resOf(sl)] = true
						k := keyOf(sl)
						nv := []byte{byte(ser), byte(ser >> 8)}
						d.kv = append(d.kv, vc08Kv{k, nv, kv[k]})
						kv[k] = nv
						if creOK(sl) {
							d.cre = append(d.cre, vc08Cre{creOf(sl), true, holder, creOf(sl) % 2})
						}
					} else {
						d.accts = append(d.accts, struct {
							addr uint64
							a    vc08Acct
						}{acctOf(sl), vc08Acct{}})
						h := int64(-2)
						if !resCur[resOf(sl)] && ser%2 == 0 {
							h = -1 // absent before: nil and not deleted is legal too
						}
						d.res = append(d.res, vc08Res{holder, resOf(sl), -2, h})
						resCur[resOf(sl)] = false
						k := keyOf(sl)
						d.kv = append(d.kv, vc08Kv{k, nil, kv[k]})
						delete(kv, k)
						if creOK(sl) {
							d.cre = append(d.cre, vc08Cre{creOf(sl), false, holder, creOf(sl) % 2})
						}
					}
				}
				step()
				// round 1: the keys that are in the DB when the patterns start
				d0 := &vc08Delta{}
				for _, sl := range slots {
					if sl.present {
						apply(d0, sl, true)
					}
				}
				w.opBlock(d0)
				step()
				commit := func(rnd uint64) {
					w.opSchedule(rnd)
					step()
					if w.phase == 1 {
						w.opCommit()
						step()
					}
					if w.phase == 2 {
						w.opPost(nil)
						step()
					}
				}
				commit(1)
				for st := 0; st < L; st++ {
					d := &vc08Delta{}
					for _, sl := range slots {
						apply(d, sl, isWrite(sl.pat, st))
					}
					w.opBlock(d)
					step()
				}
				if cut > 0 {
					commit(uint64(1 + cut))
				}
				if cut < L {
					commit(uint64(1 + L))
				}
				w.opReload()
				step()
				w.opBlock(&vc08Delta{})
				step()
				w.emit(out, gen)
				stats["pattern_stacks"]++
				stats["pattern_slots"] += len(slots)
			})
		}
	}
	st := map[string]interface{}{}
	for k, v := range stats {
		st[k] = v
	}
	b, _ := json.MarshalIndent(st, "", " ")
	os.WriteFile(filepath.Join(os.Getenv("VERIF_OUT"), "stats_patterns.json"), b, 0644)
}
