//go:build verif

package ledger

// Shared driver of the C12 / C13 harnesses: a real Ledger (OpenLedger on in-memory SQLite, the
// real evaluator producing every block from generated transactions) whose tracker commits are
// scripted: the automatic scheduling is switched off by a huge MaxAcctLookback and commits are
// issued on the test goroutine exactly as trackerRegistry.scheduleCommit / commitSyncer do
// (produceCommittingTask with a chosen lookback, then trackerRegistry.commitRound), reloads are
// Ledger.reloadLedger (trackers re-initialised from the tracker DB + replay of the block DB).

import (
	"encoding/binary"
	"fmt"
	"io"
	"testing"

	"github.com/stretchr/testify/require"

	"github.com/algorand/go-algorand/agreement"
	"github.com/algorand/go-algorand/config"
	"github.com/algorand/go-algorand/crypto"
	"github.com/algorand/go-algorand/crypto/merklesignature"
	"github.com/algorand/go-algorand/data/basics"
	"github.com/algorand/go-algorand/data/bookkeeping"
	"github.com/algorand/go-algorand/data/committee"
	"github.com/algorand/go-algorand/data/transactions"
	"github.com/algorand/go-algorand/data/txntest"
	"github.com/algorand/go-algorand/ledger/eval"
	"github.com/algorand/go-algorand/ledger/ledgercore"
	"github.com/algorand/go-algorand/logging"
	"github.com/algorand/go-algorand/protocol"
)

const vlhNoAutoCommit = uint64(1 << 30) // MaxAcctLookback: committedRound < lookback => never scheduled

type vlhProtoOpts struct {
	RewardUnit      uint64
	RefreshInterval uint64 // RewardsRateRefreshInterval (0 = keep)
	MaxBalLookback  uint64 // 0 = keep (320)
	ExcludeExpired  bool   // ExcludeExpiredCirculation
	SetExclude      bool
	CatchpointLookback uint64 // 0 = keep
}

// vlhProto registers (once) a consensus version derived from the current one.
func vlhProto(o vlhProtoOpts) protocol.ConsensusVersion {
	name := protocol.ConsensusVersion(fmt.Sprintf("verif-c12c13-u%d-i%d-l%d-x%v%v-c%d", o.RewardUnit, o.RefreshInterval, o.MaxBalLookback, o.SetExclude, o.ExcludeExpired, o.CatchpointLookback))
	if _, ok := config.Consensus[name]; ok {
		return name
	}
	p := config.Consensus[protocol.ConsensusCurrentVersion]
	if o.RewardUnit != 0 {
		p.RewardUnit = o.RewardUnit
	}
	if o.RefreshInterval != 0 {
		p.RewardsRateRefreshInterval = o.RefreshInterval
	}
	if o.MaxBalLookback != 0 {
		// MaxBalLookback = 2 * SeedRefreshInterval * SeedLookback in every real protocol
		p.MaxBalLookback = o.MaxBalLookback
		p.SeedLookback = 1
		p.SeedRefreshInterval = o.MaxBalLookback / 2
		if p.SeedRefreshInterval == 0 {
			p.SeedRefreshInterval = 1
		}
	}
	if o.SetExclude {
		p.ExcludeExpiredCirculation = o.ExcludeExpired
	}
	if o.CatchpointLookback != 0 {
		p.CatchpointLookback = o.CatchpointLookback
	}
	p.ApprovedUpgrades = map[protocol.ConsensusVersion]uint64{}
	config.Consensus[name] = p
	return name
}

func vlhAddr(i int) (a basics.Address) {
	a[0] = 0xa5
	binary.BigEndian.PutUint64(a[8:16], uint64(i)+1)
	a[31] = byte(i*37 + 11) // spreads the byte-wise address order
	return
}

var vlhSink = func() (a basics.Address) { a[0] = 0xf5; a[1] = 0x01; return }()
var vlhPool = func() (a basics.Address) { a[0] = 0xf5; a[1] = 0x02; return }()

type vlhWorld struct {
	t      *testing.T
	l      *Ledger
	rnd    *vRand
	cv     protocol.ConsensusVersion
	proto  config.ConsensusParams
	addrs  []basics.Address       // universe in order of first appearance
	idx    map[basics.Address]int // address -> index in addrs
	keyCtr uint64
	noteCt uint64
	st     map[string]int
}

func (w *vlhWorld) id(a basics.Address) int {
	if i, ok := w.idx[a]; ok {
		return i
	}
	w.idx[a] = len(w.addrs)
	w.addrs = append(w.addrs, a)
	return len(w.addrs) - 1
}

func vlhQuietLog() logging.Logger {
	log := logging.NewLogger()
	log.SetOutput(io.Discard)
	log.SetLevel(logging.Panic)
	return log
}

// vlhOpen creates the ledger.  genesis: ordered (address, data) list; sink and pool are appended.
// lru = false sets DisableLedgerLRUCache: every (re)load of the trackers with the LRU caches on
// allocates their 100000-entry pending-write buffers (~1 s), so histories with many reloads run
// without them and a share of the histories (few reloads) runs with them.
func vlhOpen(t *testing.T, rnd *vRand, cv protocol.ConsensusVersion, order []basics.Address, accts map[basics.Address]basics.AccountData, lru bool, st map[string]int, cfgOpts ...func(*config.Local)) *vlhWorld {
	w := &vlhWorld{t: t, rnd: rnd, cv: cv, proto: config.Consensus[cv], idx: map[basics.Address]int{}, st: st}
	for _, a := range order {
		w.id(a)
	}
	w.id(vlhSink)
	w.id(vlhPool)
	cfg := config.GetDefaultLocal()
	cfg.MaxAcctLookback = vlhNoAutoCommit
	cfg.CatchpointInterval = 0
	cfg.CatchpointTracking = -1
	cfg.DisableLedgerLRUCache = !lru
	for _, o := range cfgOpts {
		o(&cfg)
	}
	cfg.VerifiedTranscationsCacheSize = 1000 // default 150000: 0.7 s of allocation per OpenLedger
	bal := bookkeeping.MakeTimestampedGenesisBalances(accts, vlhSink, vlhPool, 1700000000)
	var genHash crypto.Digest
	genHash[0] = 0xc1
	binary.BigEndian.PutUint64(genHash[8:16], rnd.U64())
	w.l = newSimpleLedgerFull(t, bal, cv, genHash, cfg, simpleLedgerLogger(vlhQuietLog()))
	return w
}

func (w *vlhWorld) close() { w.l.Close() }

// vlhVoteKeys returns fresh non-empty participation keys.
func (w *vlhWorld) voteKeys() (v crypto.OneTimeSignatureVerifier, s crypto.VRFVerifier, sp merklesignature.Commitment) {
	w.keyCtr++
	binary.BigEndian.PutUint64(v[0:8], w.keyCtr)
	v[31] = 1
	binary.BigEndian.PutUint64(s[0:8], w.keyCtr)
	s[31] = 2
	binary.BigEndian.PutUint64(sp[0:8], w.keyCtr)
	sp[63] = 3
	return
}

// addBlock evaluates one block from the given transactions with the real evaluator (generate +
// validate, as simple_test.go's nextBlock/endBlock do); transactions the evaluator rejects are
// dropped.  Returns the validated block that was added (its StateDelta is what the trackers got).
func (w *vlhWorld) addBlock(txs []*txntest.Txn, proposer *basics.Address) *ledgercore.ValidatedBlock {
	t, l := w.t, w.l
	ev := nextBlock(t, l)
	for _, tx := range txs {
		w.noteCt++
		note := make([]byte, 8)
		binary.BigEndian.PutUint64(note, w.noteCt)
		tx.Note = note
		fillDefaults(t, l, ev, tx)
		stxn := tx.SignedTxn()
		grp := []transactions.SignedTxn{stxn}
		err := ev.TestTransactionGroup(grp)
		if err == nil {
			err = ev.TransactionGroup(transactions.WrapSignedTxnsWithAD(grp)...)
		}
		if err != nil {
			w.st["txn_rejected"]++
		} else {
			w.st["txn_"+string(tx.Type)]++
		}
	}
	return w.endBlock(ev, proposer)
}

func (w *vlhWorld) endBlock(ev *eval.BlockEvaluator, proposer *basics.Address) *ledgercore.ValidatedBlock {
	t, l := w.t, w.l
	var parts []basics.Address
	if proposer != nil {
		parts = []basics.Address{*proposer}
	}
	ub, err := ev.GenerateBlock(parts)
	require.NoError(t, err)
	gvb := ledgercore.MakeValidatedBlock(ub.UnfinishedBlock(), ub.UnfinishedDeltas())
	prp := gvb.Block().BlockHeader.FeeSink
	if proposer != nil {
		prp = *proposer
	}
	if l.GenesisProto().Payouts.Enabled {
		gvb = ledgercore.MakeValidatedBlock(gvb.Block().WithProposer(committee.Seed(prp), prp, true), gvb.Delta())
	} else {
		gvb = ledgercore.MakeValidatedBlock(gvb.Block().WithProposer(committee.Seed(prp), basics.Address{}, false), gvb.Delta())
	}
	vvb, err := validateWithoutSignatures(t, l, gvb.Block())
	require.NoError(t, err)
	require.NoError(t, l.AddValidatedBlock(*vvb, agreement.Certificate{}))
	l.WaitForCommit(l.Latest())
	return vvb
}

// proposerOK returns &p when p can be written into the header as proposer: it exists now and
// does not close itself in this block (a closed proposer cannot receive the payout).
func (w *vlhWorld) proposerOK(p basics.Address, txs []*txntest.Txn) *basics.Address {
	d, _, _, err := w.l.LookupLatest(p)
	if err != nil || d.MicroAlgos.Raw == 0 {
		return nil
	}
	for _, tx := range txs {
		if tx.Sender == p && !tx.CloseRemainderTo.IsZero() {
			return nil
		}
	}
	return &p
}

func (w *vlhWorld) dbRound() basics.Round {
	w.l.trackers.mu.RLock()
	defer w.l.trackers.mu.RUnlock()
	return w.l.trackers.dbRound
}

// commit flushes the rounds dbRound+1 .. latest-lookback to the tracker DB (one commitRound).
// Returns the tracker DB round afterwards and the voters tracker's lowestRound that
// produceCommittingTask put into the deferred commit range (0 when nothing was committed).
func (w *vlhWorld) commit(lookback basics.Round) (basics.Round, basics.Round) {
	l := w.l
	l.trackers.waitAccountsWriting()
	rnd := l.Latest()
	dcc := &deferredCommitContext{deferredCommitRange: deferredCommitRange{lookback: lookback}}
	l.trackers.mu.RLock()
	dbRound := l.trackers.dbRound
	cdr := l.trackers.produceCommittingTask(rnd, dbRound, &dcc.deferredCommitRange)
	if cdr != nil {
		dcc.deferredCommitRange = *cdr
	} else {
		dcc = nil
	}
	l.trackers.mu.RUnlock()
	lowest := basics.Round(0)
	if dcc != nil {
		lowest = dcc.lowestRound
		l.trackers.accountsWriting.Add(1)
		require.NoError(w.t, l.trackers.commitRound(dcc))
	}
	return w.dbRound(), lowest
}

func (w *vlhWorld) reload() {
	require.NoError(w.t, w.l.reloadLedger())
}
