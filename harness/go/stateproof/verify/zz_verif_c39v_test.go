//go:build verif

package verify

// C39 harness, ledger side: the real ValidateStateProof on (a) real state proofs built with the
// exported crypto/stateproof API for custom consensus parameters and (b) boundary-heavy weights /
// rounds with a dummy proof (the arithmetic of calculateAcceptableStateProofWeight and the order
// of the checks).  Each case records the inner Verifier.Verify outcome obtained by calling the
// exported verifier directly.  Case format: coq/model/StateProofCheck.v ("validate").

import (
	"errors"
	"fmt"
	"strings"
	"testing"

	"github.com/algorand/go-algorand/config"
	"github.com/algorand/go-algorand/crypto"
	"github.com/algorand/go-algorand/crypto/merklearray"
	"github.com/algorand/go-algorand/crypto/merklesignature"
	"github.com/algorand/go-algorand/crypto/stateproof"
	"github.com/algorand/go-algorand/data/basics"
	"github.com/algorand/go-algorand/data/stateproofmsg"
	"github.com/algorand/go-algorand/ledger/ledgercore"
	"github.com/algorand/go-algorand/logging"
	"github.com/algorand/go-algorand/protocol"
)

func vC39vClass(err error) string {
	switch {
	case err == nil:
		return "ok"
	case errors.Is(err, errStateProofNotEnabled):
		return "notenabled"
	case errors.Is(err, errNotAtRightMultiple):
		return "notmultiple"
	case errors.Is(err, errInsufficientWeight):
		return "insufficientweight"
	case errors.Is(err, errStateProofCrypto):
		return "crypto"
	case errors.Is(err, stateproof.ErrIllegalInputForLnApprox):
		return "lnzero"
	case strings.HasPrefix(err.Error(), "overflow computing provenWeight"):
		return "overflow"
	}
	return "other"
}

func vC39vRes(class string) []interface{} {
	if class == "ok" {
		return vL(vSym("ok"))
	}
	return vL(vSym("err"), vSym(class))
}

func vC39vSafe(f func() error) (err error) {
	defer func() {
		if r := recover(); r != nil {
			err = fmt.Errorf("panic: %v", r)
		}
	}()
	return f()
}

func TestVerifC39Validate(t *testing.T) {
	r := vNewRand(0xC39F)
	o := vOpen("cases_c39_validate.txt")
	defer o.Close()
	n := vEnvInt("VERIF_C39V_N", 1500)
	classes := map[string]int{}

	version := func(interval uint64, threshold uint32, strength uint64) protocol.ConsensusVersion {
		name := protocol.ConsensusVersion(fmt.Sprintf("verif-c39-%d-%d-%d", interval, threshold, strength))
		if _, ok := config.Consensus[name]; !ok {
			p := config.Consensus[protocol.ConsensusCurrentVersion]
			p.StateProofInterval = interval
			p.StateProofWeightThreshold = threshold
			p.StateProofStrengthTarget = strength
			config.Consensus[name] = p
		}
		return name
	}

	emit := func(interval uint64, threshold uint32, strength uint64, total, last, atRound uint64,
		voters crypto.GenericDigest, sp *stateproof.StateProof, msg *stateproofmsg.Message) {
		ctx := ledgercore.StateProofVerificationContext{
			LastAttestedRound: basics.Round(last), VotersCommitment: voters,
			OnlineTotalWeight: basics.MicroAlgos{Raw: total}, Version: version(interval, threshold, strength),
		}
		// the inner verification, called directly
		pw, ovf := basics.Muldiv(total, uint64(threshold), 1<<32)
		lnres := int64(-1)
		inner := vL(vSym("err"), vSym("none"))
		if !ovf {
			if ln, err := stateproof.LnIntApproximation(pw); err == nil {
				lnres = int64(ln)
				v, err := stateproof.MkVerifier(voters, pw, strength)
				if err == nil {
					ierr := vC39vSafe(func() error { return v.Verify(basics.Round(last), msg.Hash(), sp) })
					if ierr == nil {
						inner = vL(vSym("ok"))
					} else {
						inner = vL(vSym("err"), vSym("crypto"))
					}
				}
			}
		}
		err := vC39vSafe(func() error { return ValidateStateProof(&ctx, sp, basics.Round(atRound), msg) })
		cl := vC39vClass(err)
		classes[cl]++
		o.Case(vSym("validate"), interval, uint64(threshold), strength, total, last, atRound, sp.SignedWeight,
			vSym(fmt.Sprintf("%d", lnres)), inner, vC39vRes(cl))
	}

	// ---- (a) real proofs
	hf := crypto.HashFactory{HashType: stateproof.HashType}
	for _, interval := range []uint64{4, 16} {
		const np = 6
		last := interval * 2
		keys := make([]*merklesignature.Secrets, np)
		parts := make([]basics.Participant, np)
		var total uint64
		for i := range keys {
			k, err := merklesignature.New(0, last, interval)
			if err != nil {
				t.Fatal(err)
			}
			keys[i] = k
			parts[i] = basics.Participant{PK: *k.GetVerifier(), Weight: uint64(100 + 10*i)}
			total += parts[i].Weight
		}
		tree, err := merklearray.BuildVectorCommitmentTree(basics.ParticipantsArray(parts), hf)
		if err != nil {
			t.Fatal(err)
		}
		threshold := uint32((uint64(1) << 32) * 30 / 100)
		strength := uint64(16)
		pw, _ := basics.Muldiv(total, uint64(threshold), 1<<32)
		msg := stateproofmsg.Message{BlockHeadersCommitment: r.Bytes(32), VotersCommitment: tree.Root(),
			FirstAttestedRound: basics.Round(last - interval + 1), LastAttestedRound: basics.Round(last)}
		data := msg.Hash()
		for _, nsign := range []int{np, np - 1, 3, 2} {
			b, err := stateproof.MakeProver(data, last, pw, parts, tree, strength)
			if err != nil {
				t.Fatal(err)
			}
			for i := 0; i < nsign; i++ {
				sig, err := keys[i].GetSigner(last).SignBytes(data[:])
				if err != nil {
					t.Fatal(err)
				}
				if err := b.IsValid(uint64(i), &sig, true); err != nil {
					t.Fatal(err)
				}
				if err := b.Add(uint64(i), sig); err != nil {
					t.Fatal(err)
				}
			}
			sp, err := b.CreateProof()
			if err != nil {
				continue
			}
			for _, at := range []uint64{0, last, last + 1, last + interval/2, last + interval/2 + 1, last + interval - 1,
				last + interval, last + 10*interval} {
				emit(interval, threshold, strength, total, last, at, tree.Root(), sp, &msg)
			}
			// tampered message / round / parameters
			m2 := msg
			m2.LnProvenWeight++
			emit(interval, threshold, strength, total, last, last+interval, tree.Root(), sp, &m2)
			emit(interval, threshold, strength, total, last+interval, last+2*interval, tree.Root(), sp, &msg)
			emit(interval, threshold, strength, total, last+1, last+2*interval, tree.Root(), sp, &msg)
			emit(interval, threshold, strength*8, total, last, last+interval, tree.Root(), sp, &msg)
			emit(interval, threshold, strength, total*3, last, last+interval, tree.Root(), sp, &msg)
			emit(0, threshold, strength, total, last, last+interval, tree.Root(), sp, &msg)
			emit(interval, 0, strength, total, last, last+interval, tree.Root(), sp, &msg)
		}
	}

	// ---- (b) the arithmetic and the order of the checks on boundary-heavy values
	dummyMsg := stateproofmsg.Message{}
	for i := 0; i < n; i++ {
		interval := []uint64{0, 1, 2, 3, 8, 256, 257, 1 << 20}[r.Intn(8)]
		threshold := []uint32{0, 1, uint32((uint64(1) << 32) * 30 / 100), 1 << 31, ^uint32(0), uint32(r.U64())}[r.Intn(6)]
		total := r.Edge64()
		var last uint64
		switch r.Intn(4) {
		case 0:
			last = r.Edge64()
		default:
			last = uint64(r.Intn(1000))
			if interval != 0 {
				last *= interval
			}
			if r.Intn(8) == 0 {
				last++
			}
		}
		var at uint64
		switch r.Intn(5) {
		case 0:
			at = r.Edge64()
		case 1:
			at = last
		default:
			at = last + uint64(r.Intn(int(2*interval+3)))
		}
		sp := &stateproof.StateProof{}
		switch r.Intn(4) {
		case 0:
			sp.SignedWeight = r.Edge64()
		case 1:
			sp.SignedWeight = total
		default:
			// near the acceptable weight
			sp.SignedWeight = calculateAcceptableStateProofWeightForTest(total, interval, threshold, last, at) + uint64(r.Intn(3)) - 1
		}
		emit(interval, threshold, 256, total, last, at, crypto.GenericDigest(make([]byte, 64)), sp, &dummyMsg)
	}
	vStats(map[string]interface{}{"validate_cases": o.n, "outcomes": classes})
}

// the acceptable weight, through the real function (used only to place signed weights at the boundary)
func calculateAcceptableStateProofWeightForTest(total, interval uint64, threshold uint32, last, at uint64) uint64 {
	p := config.Consensus[protocol.ConsensusCurrentVersion]
	p.StateProofInterval = interval
	p.StateProofWeightThreshold = threshold
	return calculateAcceptableStateProofWeight(basics.MicroAlgos{Raw: total}, &p, basics.Round(last), basics.Round(at), logging.Base())
}
