//go:build verif

package catchup

// C30 harness: the REAL catchup.Service (pipelinedFetch / fetchAndWrite / innerFetch /
// universalBlockFetcher / processBlockBytes / peer selectors) is run against
//   - adversarial in-process peers (network.UnicastPeer) that answer the k-th request for round r
//     with the k-th entry of a seeded script (errors, "no block", undecodable bytes, blocks of the
//     wrong round, tampered paysets, forged blocks, certificates of other rounds / other blocks /
//     forged certificates, ...), after seeded delays, so that responses arrive out of order;
//   - a monitoring ledger that accepts only latest+1 (with the error values of the real ledger)
//     and records every AddBlock / Validate / AddValidatedBlock call with the latest round at that
//     moment, and -- recomputed on the very pair it was handed -- ContentsMatchHeader and the
//     authenticator oracle;
//   - an authenticator oracle = agreement.Certificate.claimsToAuthenticate (round + digest) and
//     "the bundle is genuine" (a mark the harness puts on the certificates it declares genuine).
// One case = one pipelinedFetch call; all events go into one mutex-ordered log which the model
// replays (coq/model/CatchupCheck.v).

import (
	"context"
	"encoding/binary"
	"errors"
	"fmt"
	"io"
	"sync"
	"testing"
	"time"

	"github.com/algorand/go-algorand/agreement"
	"github.com/algorand/go-algorand/config"
	"github.com/algorand/go-algorand/crypto"
	"github.com/algorand/go-algorand/data/basics"
	"github.com/algorand/go-algorand/data/bookkeeping"
	"github.com/algorand/go-algorand/data/transactions"
	"github.com/algorand/go-algorand/ledger/ledgercore"
	"github.com/algorand/go-algorand/logging"
	"github.com/algorand/go-algorand/network"
	"github.com/algorand/go-algorand/protocol"
	"github.com/algorand/go-algorand/rpcs"
	"github.com/algorand/go-algorand/util/execpool"
)

const vGenuineMark = 0x5eed // Proposal.OriginalPeriod of certificates the oracle accepts as genuine bundles

// ---------------------------------------------------------------- event log
type vEvLog struct {
	mu sync.Mutex
	ev []interface{}
}

func (l *vEvLog) add(e []interface{}) {
	l.mu.Lock()
	l.ev = append(l.ev, e)
	l.mu.Unlock()
}

// ---------------------------------------------------------------- world: blocks, certificates, descriptors
type vWorld struct {
	mu      sync.Mutex
	ids     map[crypto.Digest]uint64
	nextID  uint64
	auth    []bookkeeping.Block // authentic chain, index = round
	log     *vEvLog
	script  map[uint64][]vResp
	attempt map[uint64]int
}

type vResp struct {
	kind  string // "e" transport error, "n" no block, "g" garbage bytes, "p" pair
	blk   bookkeeping.Block
	cert  agreement.Certificate
	delay time.Duration
	label string
}

func (w *vWorld) idOf(d crypto.Digest) uint64 {
	w.mu.Lock()
	defer w.mu.Unlock()
	if id, ok := w.ids[d]; ok {
		return id
	}
	w.nextID++
	w.ids[d] = w.nextID
	return w.nextID
}

func vProtoSupported(b *bookkeeping.Block) bool {
	_, ok := config.Consensus[b.BlockHeader.CurrentProtocol]
	return ok
}

func (w *vWorld) bdesc(b *bookkeeping.Block) []interface{} {
	return vL(uint64(b.Round()), w.idOf(b.Digest()), b.ContentsMatchHeader(), vProtoSupported(b))
}

func vGenuine(c *agreement.Certificate) bool { return uint64(c.Proposal.OriginalPeriod) == vGenuineMark }

func (w *vWorld) cdesc(c *agreement.Certificate) []interface{} {
	return vL(uint64(c.Round), w.idOf(c.Proposal.BlockDigest), vGenuine(c))
}

// the authenticator oracle: agreement.Certificate.claimsToAuthenticate + genuine bundle
func vOracle(b *bookkeeping.Block, c *agreement.Certificate) bool {
	return c.Round == b.Round() && c.Proposal.BlockDigest == b.Digest() && vGenuine(c)
}

func (w *vWorld) respTerm(r vResp) []interface{} {
	switch r.kind {
	case "n":
		return vL(vSym("n"))
	case "p":
		b, c := r.blk, r.cert
		return vL(vSym("p"), w.bdesc(&b), w.cdesc(&c))
	default:
		return vL(vSym("e"))
	}
}

func vGenesis() bookkeeping.Block {
	var blk bookkeeping.Block
	blk.CurrentProtocol = protocol.ConsensusCurrentVersion
	blk.BlockHeader.GenesisHash = crypto.Digest{0x42}
	blk.BlockHeader.GenesisID = "verif"
	blk.BlockHeader.RewardsState.RewardsPool = poolAddr
	blk.BlockHeader.RewardsState.FeeSink = sinkAddr
	return blk
}

func vPayTxn(hdr bookkeeping.BlockHeader, amt uint64) transactions.SignedTxn {
	var user basics.Address
	user[0] = 123
	return transactions.SignedTxn{Txn: transactions.Transaction{
		Type: protocol.PaymentTx,
		Header: transactions.Header{Sender: user, Fee: basics.MicroAlgos{Raw: 1000}, FirstValid: hdr.Round, LastValid: hdr.Round,
			GenesisHash: hdr.GenesisHash},
		PaymentTxnFields: transactions.PaymentTxnFields{Receiver: user, Amount: basics.MicroAlgos{Raw: amt}},
	}}
}

// a block following prev, with nTx payments and a header that commits to them
func vMakeBlock(prev bookkeeping.BlockHeader, nTx int, salt uint64) bookkeeping.Block {
	b := bookkeeping.MakeBlock(prev)
	b.BlockHeader.TimeStamp = prev.TimeStamp + 1 + int64(salt%1000)
	for i := 0; i < nTx; i++ {
		txib, err := b.EncodeSignedTxn(vPayTxn(b.BlockHeader, salt+uint64(i)+1), transactions.ApplyData{})
		if err != nil {
			panic(err)
		}
		b.Payset = append(b.Payset, txib)
	}
	var err error
	b.TxnCommitments, err = b.PaysetCommit()
	if err != nil {
		panic(err)
	}
	return b
}

func vCert(b *bookkeeping.Block, round basics.Round, genuine bool) agreement.Certificate {
	var c agreement.Certificate
	c.Round = round
	c.Proposal.BlockDigest = b.Digest()
	if genuine {
		c.Proposal.OriginalPeriod = vGenuineMark
	}
	return c
}

// ---------------------------------------------------------------- peers
type vPeer struct {
	id uint64
	w  *vWorld
}

func (p *vPeer) GetAddress() string { return fmt.Sprintf("vpeer-%d", p.id) }
func (p *vPeer) Respond(ctx context.Context, reqMsg network.IncomingMessage, outMsg network.OutgoingMessage) error {
	return nil
}

func (p *vPeer) Request(ctx context.Context, tag protocol.Tag, topics network.Topics) (*network.Response, error) {
	rb, ok := topics.GetValue(rpcs.RoundKey)
	if !ok {
		return nil, errors.New("no round")
	}
	r, _ := binary.Uvarint(rb)
	w := p.w
	w.mu.Lock()
	k := w.attempt[r]
	w.attempt[r] = k + 1
	var rs vResp
	if sc := w.script[r]; k < len(sc) {
		rs = sc[k]
	} else {
		rs = vResp{kind: "n"}
	}
	w.mu.Unlock()
	if rs.delay > 0 {
		t := time.NewTimer(rs.delay)
		select {
		case <-t.C:
		case <-ctx.Done():
			t.Stop()
		}
	}
	if ctx.Err() != nil {
		w.log.add(vL(vSym("f"), r, p.id, vL(vSym("e"))))
		return nil, ctx.Err()
	}
	w.log.add(vL(vSym("f"), r, p.id, w.respTerm(rs)))
	switch rs.kind {
	case "e":
		return nil, errors.New("verif: transport error")
	case "n":
		return &network.Response{Topics: network.Topics{
			network.MakeTopic(network.ErrorKey, []byte("no block")),
			network.MakeTopic(rpcs.LatestRoundKey, binary.BigEndian.AppendUint64(nil, 0)),
		}}, nil
	case "g":
		return &network.Response{Topics: network.Topics{
			network.MakeTopic(rpcs.BlockDataKey, []byte{0xc1, 0xff, 0x00, 0x13}),
			network.MakeTopic(rpcs.CertDataKey, []byte{0xc1}),
		}}, nil
	}
	b, c := rs.blk, rs.cert
	return &network.Response{Topics: network.Topics{
		network.MakeTopic(rpcs.BlockDataKey, protocol.Encode(&b)),
		network.MakeTopic(rpcs.CertDataKey, protocol.Encode(&c)),
	}}, nil
}

// ---------------------------------------------------------------- authenticator
type vAuth struct{ w *vWorld }

func (a *vAuth) Authenticate(b *bookkeeping.Block, c *agreement.Certificate) error {
	ok := vOracle(b, c)
	a.w.log.add(vL(vSym("a"), uint64(b.Round()), a.w.bdesc(b), a.w.cdesc(c), ok))
	if !ok {
		return errors.New("verif: certificate does not authenticate block")
	}
	return nil
}
func (a *vAuth) Quit() {}

// ---------------------------------------------------------------- monitoring ledger
type vLedger struct {
	mockedLedger
	w        *vWorld
	evalFail map[uint64]int // round -> 1 protocol error, 2 eval panic, 3 other
	started  bool
}

// pipelinedFetch reads firstRound := s.ledger.NextRound() once, before launching any worker: that
// read is the start of the pipeline for the model (somebody else may have written blocks before it)
func (m *vLedger) NextRound() basics.Round {
	m.mu.Lock()
	defer m.mu.Unlock()
	lat := m.lastRound()
	if !m.started {
		m.started = true
		m.w.log.add(vL(vSym("s"), uint64(lat)))
	}
	return lat + 1
}

func vAddErr(code int, r, lat basics.Round) error {
	switch code {
	case 0:
		return nil
	case 1:
		return ledgercore.BlockInLedgerError{LastRound: r, NextRound: lat + 1}
	case 2:
		return ledgercore.ErrNonSequentialBlockEval{EvaluatorRound: r, LatestRound: lat}
	case 3:
		return protocol.Error("verif-unsupported")
	case 4:
		return ledgercore.EvalPanicError{Round: r, Cause: "verif"}
	}
	return errors.New("verif: evaluation failed")
}

// the one place where blocks enter the ledger; src: true = catchup service, false = somebody else
func (m *vLedger) add(src bool, blk bookkeeping.Block, cert agreement.Certificate, validated bool) error {
	m.mu.Lock()
	defer m.mu.Unlock()
	lat := m.lastRound()
	r := blk.Round()
	code := 0
	if r == lat+1 {
		if k := m.evalFail[uint64(r)]; k != 0 && !validated {
			code = 2 + k
		}
	} else if validated || r <= lat {
		code = 1
	} else {
		code = 2
	}
	m.w.log.add(vL(vSym("w"), src, uint64(r), m.w.bdesc(&blk), m.w.cdesc(&cert), uint64(lat), code, validated,
		blk.ContentsMatchHeader(), vOracle(&blk, &cert)))
	if code == 0 {
		m.blocks = append(m.blocks, blk)
		for wr, ch := range m.chans {
			if wr <= r {
				close(ch)
				delete(m.chans, wr)
			}
		}
	}
	return vAddErr(code, r, lat)
}

func (m *vLedger) AddBlock(blk bookkeeping.Block, cert agreement.Certificate) error {
	return m.add(true, blk, cert, false)
}
func (m *vLedger) EnsureBlock(blk *bookkeeping.Block, cert agreement.Certificate) {
	m.add(true, *blk, cert, false)
}
func (m *vLedger) AddValidatedBlock(vb ledgercore.ValidatedBlock, cert agreement.Certificate) error {
	return m.add(true, vb.Block(), cert, true)
}
func (m *vLedger) Validate(ctx context.Context, blk bookkeeping.Block, executionPool execpool.BacklogPool) (*ledgercore.ValidatedBlock, error) {
	m.mu.Lock()
	defer m.mu.Unlock()
	lat := m.lastRound()
	r := blk.Round()
	code := 0
	if r == lat+1 {
		if k := m.evalFail[uint64(r)]; k != 0 {
			code = 2 + k
		}
	} else if r <= lat {
		code = 1
	} else {
		code = 2
	}
	m.w.log.add(vL(vSym("v"), uint64(r), m.w.bdesc(&blk), uint64(lat), code))
	switch code {
	case 0:
		vb := ledgercore.MakeValidatedBlock(blk, ledgercore.StateDelta{})
		return &vb, nil
	case 1, 2:
		return nil, ledgercore.ErrNonSequentialBlockEval{EvaluatorRound: r, LatestRound: lat}
	}
	return nil, vAddErr(code, r, lat)
}

// ---------------------------------------------------------------- one scenario
type vScenario struct {
	vp, vc, val bool
	par, seed   uint64
	lat0, n     uint64 // rounds lat0+1 .. lat0+n are scripted
	npeers      int
	disable     uint64
	ext         uint64 // somebody else writes authentic blocks up to this round (0 = nobody)
	extDelayUs  int
	cancelAfter int // cancel the service after this many events (-1 = never)
	busy        bool
	evalFail    map[uint64]int
	script      map[uint64][]vResp
	det         bool
}

func vRunScenario(t *testing.T, sc *vScenario, w *vWorld) (line []interface{}, st map[string]int) {
	w.log = &vEvLog{}
	w.script = sc.script
	w.attempt = map[uint64]int{}
	led := &vLedger{w: w, evalFail: sc.evalFail}
	for r := uint64(0); r <= sc.lat0; r++ {
		led.blocks = append(led.blocks, w.auth[r])
	}
	net := &httpTestPeerSource{}
	for i := 0; i < sc.npeers; i++ {
		net.peers = append(net.peers, &vPeer{id: uint64(i), w: w})
	}
	cfg := config.GetDefaultLocal()
	cfg.CatchupParallelBlocks = sc.par
	mode := 0
	if !sc.vc {
		mode |= 1
	}
	if !sc.vp {
		mode |= 2
	}
	if sc.val {
		mode |= 4
	}
	cfg.CatchupBlockValidateMode = mode
	if cfg.CatchupVerifyCertificate() != sc.vc || cfg.CatchupVerifyPaysetHash() != sc.vp ||
		(cfg.CatchupVerifyTransactionSignatures() || cfg.CatchupVerifyApplyData()) != sc.val {
		t.Fatalf("config switches do not decode as expected (mode %d)", mode)
	}
	qlog := logging.NewLogger()
	qlog.SetOutput(io.Discard)
	qlog.SetLevel(logging.Panic)
	s := MakeService(qlog, cfg, net, led, &vAuth{w: w}, nil, nil)
	s.testStart()
	if sc.busy {
		led.behindDeltas = true
		s.roundTimeEstimate = time.Nanosecond
	}
	if sc.disable != 0 {
		if err := s.SetDisableSyncRound(basics.Round(sc.disable)); err != nil {
			t.Fatalf("SetDisableSyncRound: %v", err)
		}
	}
	stop := make(chan struct{})
	var bg sync.WaitGroup
	if sc.ext != 0 {
		bg.Add(1)
		go func() {
			defer bg.Done()
			for {
				select {
				case <-stop:
					return
				case <-time.After(time.Duration(sc.extDelayUs) * time.Microsecond):
				}
				nxt := uint64(led.LastRound()) + 1
				if nxt > sc.ext {
					return
				}
				b := w.auth[nxt]
				led.add(false, b, vCert(&b, b.Round(), true), false)
			}
		}()
	}
	if sc.cancelAfter >= 0 {
		bg.Add(1)
		go func() {
			defer bg.Done()
			for {
				select {
				case <-stop:
					return
				case <-time.After(50 * time.Microsecond):
				}
				w.log.mu.Lock()
				n := len(w.log.ev)
				if n >= sc.cancelAfter {
					w.log.ev = append(w.log.ev, vL(vSym("x")))
					w.log.mu.Unlock()
					s.cancel()
					return
				}
				w.log.mu.Unlock()
			}
		}()
	}
	// watchdog: a pipeline that does not return (deadlocked workers) is cancelled and reported
	hung := false
	bg.Add(1)
	go func() {
		defer bg.Done()
		select {
		case <-stop:
		case <-time.After(time.Duration(vEnvInt("VERIF_C30_WATCHDOG_MS", 15000)) * time.Millisecond):
			w.log.mu.Lock()
			hung = true
			w.log.ev = append(w.log.ev, vL(vSym("x")))
			w.log.mu.Unlock()
			s.cancel()
		}
	}()
	err := s.pipelinedFetch(sc.seed)
	close(stop)
	bg.Wait()
	s.cancel()
	endk := 0
	switch {
	case hung:
		endk = 9
	case errors.Is(err, errCatchupBehindDeltas) || errors.Is(err, errCatchupWritingCatchpoint):
		endk = 1
	case errors.Is(err, errCatchupStopping):
		endk = 2
	case errors.Is(err, errFetchNoBlock):
		endk = 3
	case errors.Is(err, errFetchRetryLimit):
		endk = 4
	case errors.Is(err, errLedgerAlreadyHasBlock):
		endk = 5
	case errors.Is(err, context.Canceled):
		endk = 6
	default:
		endk = 7
	}
	w.log.add(vL(vSym("end"), endk))

	// the case line
	var scr []interface{}
	for r := sc.lat0 + 1; r <= sc.lat0+sc.n; r++ {
		var rs []interface{}
		for _, x := range sc.script[r] {
			rs = append(rs, w.respTerm(x))
		}
		scr = append(scr, vL(r, sc.evalFail[r], rs))
	}
	w.log.mu.Lock()
	evs := append([]interface{}{}, w.log.ev...)
	w.log.mu.Unlock()
	flat := uint64(led.LastRound())
	var fids []interface{}
	for r := sc.lat0 + 1; r <= flat; r++ {
		fids = append(fids, w.idOf(led.blocks[r].Digest()))
	}
	st = map[string]int{"events": len(evs), "written": int(flat - sc.lat0), "end_" + fmt.Sprint(endk): 1}
	line = vL(vSym("c30"),
		vL(sc.vp, sc.vc, sc.val, sc.par, sc.seed, false, sc.disable, uint64(catchupRetryLimit), uint64(errNoBlockForRoundThreshold)),
		sc.lat0, sc.det, scr, evs, vL(vSym("final"), flat, fids))
	return
}


// ---------------------------------------------------------------- fetchRound (syncCert) scenario
// agreement holds the genuine certificate of round lat0+1 but not the block: Service.syncCert must
// fetch exactly that block (hash named by the certificate, payset matching the header) and hand it
// to EnsureBlock with agreement's certificate.
func vRunCertScenario(t *testing.T, rnd *vRand, w *vWorld, maxR uint64, st map[string]int, forgeSalt *uint64) []interface{} {
	lat0 := uint64(rnd.Intn(4))
	r := lat0 + 1
	npeers := 1 + rnd.Intn(3)
	var rs []vResp
	nb := 0
	for k, nbad := 0, rnd.Intn(7); k < nbad; k++ {
		kind := vBadKinds[rnd.Intn(len(vBadKinds))]
		if kind == "noblock" {
			if nb >= 3 {
				kind = "err"
			}
			nb++
		}
		x := vBadResp(rnd, w, r, maxR, kind, forgeSalt)
		if rnd.Intn(3) == 0 {
			x.delay = time.Duration(rnd.Intn(800)) * time.Microsecond
		}
		w.respTerm(x)
		rs = append(rs, x)
		st["cert_resp_"+kind]++
	}
	rs = append(rs, vGood(w, r))
	w.log = &vEvLog{}
	w.script = map[uint64][]vResp{r: rs}
	w.attempt = map[uint64]int{}
	led := &vLedger{w: w, started: true}
	for q := uint64(0); q <= lat0; q++ {
		led.blocks = append(led.blocks, w.auth[q])
	}
	net := &httpTestPeerSource{}
	for i := 0; i < npeers; i++ {
		net.peers = append(net.peers, &vPeer{id: uint64(i), w: w})
	}
	cfg := config.GetDefaultLocal()
	// the switches must not matter on this path: try them all
	cfg.CatchupBlockValidateMode = rnd.Intn(4)
	qlog := logging.NewLogger()
	qlog.SetOutput(io.Discard)
	qlog.SetLevel(logging.Panic)
	s := MakeService(qlog, cfg, net, led, &vAuth{w: w}, nil, nil)
	s.testStart()
	a := w.auth[r]
	done := make(chan struct{})
	go func() {
		defer close(done)
		s.syncCert(&PendingUnmatchedCertificate{Cert: vCert(&a, a.Round(), true)})
	}()
	endk := 0
	select {
	case <-done:
	case <-time.After(time.Duration(vEnvInt("VERIF_C30_WATCHDOG_MS", 15000)) * time.Millisecond):
		endk = 9
		s.cancel()
		<-done
	}
	s.cancel()
	w.log.add(vL(vSym("end"), endk))
	var scr []interface{}
	for _, x := range rs {
		scr = append(scr, w.respTerm(x))
	}
	w.log.mu.Lock()
	evs := append([]interface{}{}, w.log.ev...)
	w.log.mu.Unlock()
	flat := uint64(led.LastRound())
	var fids []interface{}
	for q := lat0 + 1; q <= flat; q++ {
		fids = append(fids, w.idOf(led.blocks[q].Digest()))
	}
	st["cert_cases"]++
	return vL(vSym("c30fr"), lat0, vL(r, w.idOf(a.Digest())), scr, evs, vL(vSym("final"), flat, fids))
}

// ---------------------------------------------------------------- generator
func vDelay(rnd *vRand) time.Duration {
	switch rnd.Intn(10) {
	case 0, 1, 2, 3, 4:
		return 0
	case 5, 6, 7:
		return time.Duration(rnd.Intn(1500)) * time.Microsecond
	case 8:
		return time.Duration(2+rnd.Intn(4)) * time.Millisecond
	default:
		return time.Duration(5+rnd.Intn(10)) * time.Millisecond
	}
}

var vBadKinds = []string{"err", "noblock", "garbage", "wrongRound", "swapCert", "certOtherDigest", "tamper", "tamperAdd",
	"forgedGenCert", "forgedPair", "authForgedCert", "tamperForged", "futureRound", "pastRound", "otherBlockCertThisRound"}

// a bad answer to a request for round r
func vBadResp(rnd *vRand, w *vWorld, r, maxR uint64, kind string, forgeSalt *uint64) vResp {
	a := w.auth[r]
	other := r
	for other == r {
		other = 1 + uint64(rnd.Intn(int(maxR)))
	}
	o := w.auth[other]
	*forgeSalt += 7
	forged := vMakeBlock(w.auth[r-1].BlockHeader, rnd.Intn(3), 5000+*forgeSalt)
	forged.BlockHeader.Seed[0], forged.BlockHeader.Seed[1], forged.BlockHeader.Seed[2] = 0xfe, byte(*forgeSalt), byte(*forgeSalt>>8)
	rs := vResp{kind: "p", label: kind}
	switch kind {
	case "err":
		return vResp{kind: "e", label: kind}
	case "noblock":
		return vResp{kind: "n", label: kind}
	case "garbage":
		return vResp{kind: "g", label: kind}
	case "wrongRound": // a genuine pair, but of another round
		rs.blk, rs.cert = o, vCert(&o, o.Round(), true)
	case "futureRound":
		f := w.auth[maxR]
		rs.blk, rs.cert = f, vCert(&f, f.Round(), true)
	case "pastRound":
		p := w.auth[1]
		if r == 1 {
			p = w.auth[2]
		}
		rs.blk, rs.cert = p, vCert(&p, p.Round(), true)
	case "otherBlockCertThisRound": // a real block of another round under a certificate that says "round r" and commits to it
		rs.blk, rs.cert = o, vCert(&o, basics.Round(r), true)
	case "swapCert": // the right block with the genuine certificate of another round
		rs.blk, rs.cert = a, vCert(&o, o.Round(), true)
	case "certOtherDigest": // certificate says round r but commits to another block
		rs.blk, rs.cert = a, vCert(&o, basics.Round(r), true)
	case "tamper": // authentic header (so the genuine certificate matches), payset changed
		t := a
		if len(t.Payset) > 0 {
			t.Payset = append(transactions.Payset{}, t.Payset[1:]...)
		} else {
			txib, _ := t.EncodeSignedTxn(vPayTxn(t.BlockHeader, 999999), transactions.ApplyData{})
			t.Payset = transactions.Payset{txib}
		}
		rs.blk, rs.cert = t, vCert(&a, a.Round(), true)
	case "tamperAdd":
		t := a
		txib, _ := t.EncodeSignedTxn(vPayTxn(t.BlockHeader, 777777), transactions.ApplyData{})
		t.Payset = append(append(transactions.Payset{}, t.Payset...), txib)
		rs.blk, rs.cert = t, vCert(&a, a.Round(), true)
	case "forgedGenCert": // a different, self-consistent block with the genuine certificate of the real one
		rs.blk, rs.cert = forged, vCert(&a, a.Round(), true)
	case "forgedPair": // a different block with a made-up certificate that claims it
		rs.blk, rs.cert = forged, vCert(&forged, forged.Round(), false)
	case "authForgedCert": // the real block with a made-up certificate
		rs.blk, rs.cert = a, vCert(&a, a.Round(), false)
	case "tamperForged":
		t := forged
		txib, _ := t.EncodeSignedTxn(vPayTxn(t.BlockHeader, 31337), transactions.ApplyData{})
		t.Payset = append(append(transactions.Payset{}, t.Payset...), txib)
		rs.blk, rs.cert = t, vCert(&forged, forged.Round(), false)
	case "unsupported": // header names a protocol this node does not know
		u := a
		u.BlockHeader.CurrentProtocol = protocol.ConsensusVersion("verif-unknown-protocol")
		rs.blk, rs.cert = u, vCert(&u, u.Round(), true)
	default:
		panic(kind)
	}
	return rs
}

func vGood(w *vWorld, r uint64) vResp {
	a := w.auth[r]
	return vResp{kind: "p", blk: a, cert: vCert(&a, a.Round(), true), label: "good"}
}

func vGenScenario(rnd *vRand, w *vWorld, idx int, maxN int, st map[string]int, forgeSalt *uint64) *vScenario {
	sc := &vScenario{vp: true, vc: true, seed: 2, npeers: 1 + rnd.Intn(3), cancelAfter: -1, det: true,
		evalFail: map[uint64]int{}, script: map[uint64][]vResp{}}
	sc.par = []uint64{1, 2, 3, 4, 8, 16}[rnd.Intn(6)]
	sc.lat0 = []uint64{0, 0, 0, 1, 2, 3}[rnd.Intn(6)]
	sc.n = uint64(1 + rnd.Intn(maxN))
	switch rnd.Intn(12) {
	case 0:
		sc.seed = 1
	case 1:
		sc.seed = 3
	}
	// configuration switches: default in 3 of 5 cases
	switch rnd.Intn(10) {
	case 0:
		sc.vc = false
	case 1:
		sc.vp = false
	case 2:
		sc.vc, sc.vp = false, false
	case 3:
		sc.val = true
	}
	maxR := sc.lat0 + sc.n + 2
	special := rnd.Intn(100)
	mode := "plain"
	switch {
	case idx == 0:
		mode = "retrylimit"
	case special < 8:
		mode = "ext"
		sc.ext = sc.lat0 + 1 + uint64(rnd.Intn(int(sc.n)+1))
		sc.extDelayUs = rnd.Intn(2500)
		sc.det = false
	case special < 13:
		mode = "cancel"
		sc.cancelAfter = rnd.Intn(int(6 * sc.n))
		sc.det = false
	case special < 16:
		mode = "busy"
		sc.busy = true
		sc.det = false
	case special < 20:
		mode = "disable"
		sc.disable = sc.lat0 + uint64(rnd.Intn(int(sc.n)+2))
		if sc.disable == 0 {
			sc.disable = 1
		}
	case special < 25:
		mode = "evalfail"
		sc.evalFail[sc.lat0+1+uint64(rnd.Intn(int(sc.n)))] = 1 + rnd.Intn(3)
	case special < 29:
		mode = "unsupported"
	}
	st["mode_"+mode]++
	badness := rnd.Intn(4) // 0: honest peers ... 3: mostly bad
	for r := sc.lat0 + 1; r <= sc.lat0+sc.n; r++ {
		var rs []vResp
		nb := 0
		nbad := 0
		if badness > 0 {
			nbad = rnd.Intn(2 * badness)
			if rnd.Intn(12) == 0 {
				nbad += 3 + rnd.Intn(6)
			}
		}
		for k := 0; k < nbad; k++ {
			kind := vBadKinds[rnd.Intn(len(vBadKinds))]
			if kind == "noblock" {
				// per-peer "no block" counters decide when the worker gives up: keep the outcome
				// independent of which peer gets picked (at most 5 per round), except with one peer
				lim := 5
				if sc.npeers == 1 && rnd.Intn(3) == 0 {
					lim = 8
				}
				if nb >= lim {
					kind = "err"
				} else {
					nb++
				}
			}
			x := vBadResp(rnd, w, r, maxR, kind, forgeSalt)
			x.delay = vDelay(rnd)
			w.respTerm(x) // names the blocks now, so that ids do not depend on goroutine scheduling
			rs = append(rs, x)
			st["resp_"+kind]++
		}
		if mode == "unsupported" && rnd.Intn(int(sc.n)) == 0 {
			x := vBadResp(rnd, w, r, maxR, "unsupported", forgeSalt)
			w.respTerm(x)
			rs = append(rs, x)
			st["resp_unsupported"]++
		}
		if rnd.Intn(14) != 0 {
			g := vGood(w, r)
			g.delay = vDelay(rnd)
			rs = append(rs, g)
			st["resp_good"]++
		} else {
			st["round_without_good_answer"]++
		}
		sc.script[r] = rs
	}
	if mode == "retrylimit" {
		// one round whose peers only ever fail: the worker must stop after catchupRetryLimit attempts
		sc.npeers, sc.par, sc.lat0, sc.n, sc.seed = 2, 4, 0, 2, 2
		sc.vp, sc.vc, sc.val = true, true, false
		sc.script = map[uint64][]vResp{1: {vGood(w, 1)}}
		var rs []vResp
		for k := 0; k < catchupRetryLimit+20; k++ {
			kind := []string{"err", "tamper", "forgedPair", "garbage", "swapCert"}[rnd.Intn(5)]
			x := vBadResp(rnd, w, 2, 4, kind, forgeSalt)
			w.respTerm(x)
			rs = append(rs, x)
		}
		sc.script[2] = rs
	}
	return sc
}

func TestVerifC30(t *testing.T) {
	n := vEnvInt("VERIF_C30_N", 250)
	maxN := vEnvInt("VERIF_C30_ROUNDS", 8)
	rnd := vNewRand(0xC30)
	logging.Base().SetOutput(io.Discard)
	logging.Base().SetLevel(logging.Panic)
	// the authentic chain (shared by all scenarios)
	w := &vWorld{ids: map[crypto.Digest]uint64{}, nextID: 1000}
	g := vGenesis()
	w.auth = append(w.auth, g)
	w.ids[g.Digest()] = 0
	for r := 1; r <= maxN+8; r++ {
		b := vMakeBlock(w.auth[r-1].BlockHeader, rnd.Intn(3), uint64(r)*11)
		w.auth = append(w.auth, b)
		w.ids[b.Digest()] = uint64(r)
		if !b.ContentsMatchHeader() {
			t.Fatalf("authentic block %d does not match its header", r)
		}
	}
	out := vOpen("cases.txt")
	defer out.Close()
	st := map[string]int{}
	var forgeSalt uint64
	t0 := time.Now()
	for i := 0; i < n; i++ {
		if i%8 == 7 {
			out.Case(vRunCertScenario(t, rnd, w, uint64(maxN)+4, st, &forgeSalt)...)
			continue
		}
		sc := vGenScenario(rnd, w, i, maxN, st, &forgeSalt)
		line, cst := vRunScenario(t, sc, w)
		for k, v := range cst {
			st[k] += v
		}
		if st["end_9"] >= 2 {
			// the pipeline deadlocked twice: report what we have instead of waiting for every case
			out.Case(line...)
			st["aborted_after_hangs"] = 1
			break
		}
		if sc.det {
			st["deterministic"]++
		}
		if sc.vp && sc.vc {
			st["default_checks"]++
		}
		out.Case(line...)
	}
	stats := map[string]interface{}{"cases": n, "wall_ms": time.Since(t0).Milliseconds()}
	for k, v := range st {
		stats[k] = v
	}
	vStats(stats)
}
