//go:build verif

package driver

// C46 harness: the real SQLiteWalletDriver / SQLiteWallet on SQLite files in a temp dir under
// $VERIF_OUT (scrypt with the smallest parameters: UnsafeScrypt).
//
// A case = one master derivation key and several wallets created from it:
//   wallet 1  created with a blank MDK (the driver draws it) or a given one; a few operations on
//             the not yet initialised handle; Init; a random operation sequence; finally
//             ExportMasterDerivationKey with the right password;
//   wallet 2+ "restore": CreateWallet in a fresh directory with the MDK wallet 1 exported, some
//             imports (of keys the derivation would produce next, and foreign ones), then
//             generates beyond wallet 1's highest index, mixed with other operations.
// Operations: FetchWallet again (new handle), Init, CheckPassword, GenerateKey(displayMnemonic),
// ImportKey, ExportKey, DeleteKey, ExportMasterDerivationKey, SignProgram, RenameWallet,
// ImportMultisigAddr, DeleteMultisigAddr; every password-guarded one with the right password or a
// wrong one (random, one bit flipped, truncated, extended, empty).
// After EVERY operation the wallet is listed: Metadata().Name, ListKeys(), the raw rows
// (address, key_idx) of table keys (read in-package), ListMultisigAddrs().
//
// The case also carries the tables the model's abstract functions are instantiated with, computed
// here INDEPENDENTLY of the wallet code:
//   dtab  i -> seed        HKDF-Expand(SHA-512/256, mdk, "AlgorandDeterministicKey-<i>") written out
//                          as one HMAC block (RFC 5869: T(1) = HMAC(PRK, info || 0x01))
//   ktab  seed -> address  Go's crypto/ed25519 (not libsodium)
//   mtab  id -> address    SHA-512/256("MultisigAddr" || version || threshold || pks), or error
// Line: (c46 MDK (ktab (seed addr)...) (dtab seed...) (mtab (id addr|0)...) WALLET...)
//       WALLET = (wallet PW NAME MDK STEP...)   STEP = (op args... (RESULT LISTING))
//       RESULT = (ok) | (addr #a) | (key #seed #pk) | (mdk #m) | (err class)
//       LISTING = (#name (api #a...) (rows (#a idx|-1)...) (msigs #a...))

import (
	"crypto/ed25519"
	"crypto/hmac"
	"crypto/sha512"
	"fmt"
	"os"
	"path/filepath"
	"testing"

	"github.com/jmoiron/sqlx"

	"github.com/algorand/go-algorand/crypto"
	"github.com/algorand/go-algorand/daemon/kmd/config"
	"github.com/algorand/go-algorand/logging"
)

// ---- independent reference computations -------------------------------------------------------

func vC46Seed(mdk []byte, idx uint64) []byte {
	mac := hmac.New(sha512.New512_256, mdk)
	mac.Write([]byte(fmt.Sprintf("AlgorandDeterministicKey-%d", idx)))
	mac.Write([]byte{1})
	return mac.Sum(nil)
}

func vC46Addr(seed []byte) []byte {
	return []byte(ed25519.NewKeyFromSeed(seed).Public().(ed25519.PublicKey))
}

type vC46Msig struct {
	version, threshold uint8
	pks                []crypto.PublicKey
}

func vC46MsigAddr(m vC46Msig) ([]byte, bool) {
	if m.version != 1 || m.threshold == 0 || len(m.pks) == 0 || int(m.threshold) > len(m.pks) {
		return nil, false
	}
	buf := append([]byte("MultisigAddr"), m.version, m.threshold)
	for _, pk := range m.pks {
		buf = append(buf, pk[:]...)
	}
	h := sha512.Sum512_256(buf)
	return h[:], true
}

// ---- one wallet under test -----------------------------------------------------------------------

type vC46Wallet struct {
	t     *testing.T
	swd   *SQLiteWalletDriver
	id    []byte
	sw    *SQLiteWallet
	pw    []byte
	name  []byte
	steps []interface{}
	// generator-side bookkeeping (only to choose interesting arguments)
	hp      uint64
	present [][]byte
	msigs   [][]byte
	kinds   map[string]int
	errs    map[string]int
}

func vC46ErrClass(err error) string {
	switch err {
	case errDecrypt:
		return "decrypt"
	case errDeriveKey:
		return "derivekey"
	case errKeyExists:
		return "exists"
	case errKeyNotFound:
		return "notfound"
	case errNoMnemonicUX:
		return "nomnemonic"
	case errTooManyKeys:
		return "toomany"
	case errSameName:
		return "samename"
	case errDatabase:
		return "database"
	case errDatabaseConnect:
		return "dbconnect"
	case errTampering:
		return "tampering"
	case errSKToPK:
		return "sktopk"
	case errTypeMismatch:
		return "typemismatch"
	}
	return "other"
}

func (w *vC46Wallet) fetch() {
	h, err := w.swd.FetchWallet(w.id)
	if err != nil {
		w.t.Fatalf("FetchWallet: %v", err)
	}
	w.sw = h.(*SQLiteWallet)
}

func (w *vC46Wallet) listing() []interface{} {
	meta, err := w.sw.Metadata()
	if err != nil {
		w.t.Fatalf("Metadata: %v", err)
	}
	api := vL(vSym("api"))
	addrs, err := w.sw.ListKeys()
	if err != nil {
		w.t.Fatalf("ListKeys: %v", err)
	}
	w.present = w.present[:0]
	for _, a := range addrs {
		b := append([]byte{}, a[:]...)
		api = append(api, b)
		w.present = append(w.present, b)
	}
	rows := vL(vSym("rows"))
	db, err := sqlx.Connect("sqlite3", dbConnectionURL(w.sw.dbPath))
	if err != nil {
		w.t.Fatalf("connect: %v", err)
	}
	rs, err := db.Query("SELECT address, key_idx FROM keys")
	if err != nil {
		w.t.Fatalf("select: %v", err)
	}
	for rs.Next() {
		var a []byte
		var idx *int64
		if err := rs.Scan(&a, &idx); err != nil {
			w.t.Fatalf("scan: %v", err)
		}
		i := int64(-1)
		if idx != nil {
			i = *idx
		}
		rows = append(rows, vL(append([]byte{}, a...), i))
	}
	rs.Close()
	db.Close()
	ms := vL(vSym("msigs"))
	maddrs, err := w.sw.ListMultisigAddrs()
	if err != nil {
		w.t.Fatalf("ListMultisigAddrs: %v", err)
	}
	w.msigs = w.msigs[:0]
	for _, a := range maddrs {
		b := append([]byte{}, a[:]...)
		ms = append(ms, b)
		w.msigs = append(w.msigs, b)
	}
	return vL(append([]byte{}, meta.Name...), api, rows, ms)
}

func (w *vC46Wallet) record(kind string, args []interface{}, res []interface{}, err error) {
	if err != nil {
		c := vC46ErrClass(err)
		res = vL(vSym("err"), vSym(c))
		w.errs[c]++
	}
	st := vL(vSym(kind))
	st = append(st, args...)
	st = append(st, vL(res, w.listing()))
	w.steps = append(w.steps, st)
	w.kinds[kind]++
}

var vC46Ok = vL(vSym("ok"))

func (w *vC46Wallet) opReopen() { w.fetch(); w.record("reopen", nil, vC46Ok, nil) }
func (w *vC46Wallet) opInit(pw []byte) {
	w.record("init", vL(pw), vC46Ok, w.sw.Init(pw))
}
func (w *vC46Wallet) opCheckPw(pw []byte) {
	w.record("checkpw", vL(pw), vC46Ok, w.sw.CheckPassword(pw))
}
func (w *vC46Wallet) opGen(dm bool) (addr []byte, ok bool) {
	a, err := w.sw.GenerateKey(dm)
	w.record("gen", vL(dm), vL(vSym("addr"), a[:]), err)
	return a[:], err == nil
}
func (w *vC46Wallet) opImport(seed []byte, corruptPK bool) {
	raw := ed25519.NewKeyFromSeed(seed)
	var sk crypto.PrivateKey
	copy(sk[:], raw)
	if corruptPK {
		sk[40] ^= 0x55
	}
	a, err := w.sw.ImportKey(sk)
	w.record("import", vL(seed), vL(vSym("addr"), a[:]), err)
}
func (w *vC46Wallet) opExport(addr, pw []byte) {
	var d crypto.Digest
	copy(d[:], addr)
	sk, err := w.sw.ExportKey(d, pw)
	w.record("export", vL(addr, pw), vL(vSym("key"), sk[:32], sk[32:]), err)
}
func (w *vC46Wallet) opDelete(addr, pw []byte) {
	var d crypto.Digest
	copy(d[:], addr)
	w.record("delete", vL(addr, pw), vC46Ok, w.sw.DeleteKey(d, pw))
}
func (w *vC46Wallet) opExportMDK(pw []byte) (crypto.MasterDerivationKey, error) {
	m, err := w.sw.ExportMasterDerivationKey(pw)
	w.record("exportmdk", vL(pw), vL(vSym("mdk"), m[:]), err)
	return m, err
}
func (w *vC46Wallet) opSign(addr, pw []byte) {
	var d crypto.Digest
	copy(d[:], addr)
	_, err := w.sw.SignProgram([]byte{1, 32, 1, 1, 34}, d, pw)
	w.record("sign", vL(addr, pw), vC46Ok, err)
}
func (w *vC46Wallet) opRename(nm, pw []byte) {
	w.record("rename", vL(nm, pw), vC46Ok, w.swd.RenameWallet(nm, w.id, pw))
}
func (w *vC46Wallet) opImportMsig(id int, m vC46Msig) {
	a, err := w.sw.ImportMultisigAddr(m.version, m.threshold, m.pks)
	if err != nil && vC46ErrClass(err) == "other" {
		// the error of crypto.MultisigAddrGen
		st := vL(vSym("importmsig"), id, vL(vL(vSym("err"), vSym("msig")), w.listing()))
		w.steps = append(w.steps, st)
		w.kinds["importmsig"]++
		w.errs["msig"]++
		return
	}
	w.record("importmsig", vL(id), vL(vSym("addr"), a[:]), err)
}
func (w *vC46Wallet) opDeleteMsig(addr, pw []byte) {
	var d crypto.Digest
	copy(d[:], addr)
	w.record("deletemsig", vL(addr, pw), vC46Ok, w.sw.DeleteMultisigAddr(d, pw))
}

// ---- generator -------------------------------------------------------------------------------------

type vC46Gen struct {
	r       *vRand
	mdk     []byte
	foreign [][]byte // seeds
	msigs   []vC46Msig
	maxIdx  uint64 // size of dtab
	wrong   int
	// nul: this case also tries the creation password followed by 0x00 bytes (accepted by the
	// real code: finding c46_password_trailing_nul); otherwise such passwords are avoided
	nul    bool
	nulPws int
}

// what HMAC (inside scrypt's PBKDF2) sees of a short password: trailing zero bytes are padding
func vC46HmacKey(pw []byte) string {
	n := len(pw)
	for n > 0 && pw[n-1] == 0 {
		n--
	}
	return string(pw[:n])
}

func (g *vC46Gen) wrongPw(pw []byte) []byte {
	g.wrong++
	if g.nul && g.r.Intn(3) == 0 {
		g.nulPws++
		return append(append([]byte{}, pw...), make([]byte, 1+g.r.Intn(3))...)
	}
	for {
		var c []byte
		switch g.r.Intn(5) {
		case 0:
			c = g.r.Bytes(1 + g.r.Intn(12))
		case 1:
			c = append([]byte{}, pw...)
			if len(c) > 0 {
				c[g.r.Intn(len(c))] ^= 1 << uint(g.r.Intn(8))
			}
		case 2:
			if len(pw) > 0 {
				c = append([]byte{}, pw[:len(pw)-1]...)
			}
		case 3:
			c = append(append([]byte{}, pw...), byte(g.r.Intn(256)))
		default:
			c = []byte{}
		}
		if vC46HmacKey(c) != vC46HmacKey(pw) {
			return c
		}
	}
}

func (g *vC46Gen) pw(w *vC46Wallet, pRight int) []byte {
	if g.r.Intn(100) < pRight {
		return w.pw
	}
	return g.wrongPw(w.pw)
}

func (g *vC46Gen) someAddr(w *vC46Wallet) []byte {
	k := g.r.Intn(10)
	switch {
	case k < 7 && len(w.present) > 0:
		return w.present[g.r.Intn(len(w.present))]
	case k < 9:
		return vC46Addr(vC46Seed(g.mdk, 1+uint64(g.r.Intn(int(w.hp)+4))))
	default:
		return g.r.Bytes(32)
	}
}

func (g *vC46Gen) importSeed(w *vC46Wallet) []byte {
	k := g.r.Intn(10)
	switch {
	case k < 6:
		// a key the derivation will reach soon (or has reached)
		return vC46Seed(g.mdk, w.hp+1+uint64(g.r.Intn(4)))
	case k < 7:
		return vC46Seed(g.mdk, 1+uint64(g.r.Intn(int(w.hp)+1)))
	default:
		return g.foreign[g.r.Intn(len(g.foreign))]
	}
}

// one random operation; genBias = percentage of GenerateKey
func (g *vC46Gen) randomOp(w *vC46Wallet, genBias int) {
	k := g.r.Intn(100)
	if k < genBias {
		if a, ok := w.opGen(false); ok {
			// bookkeeping: the index the real code stored is in the listing; recompute from the table
			for i := w.hp + 1; i <= g.maxIdx; i++ {
				if string(vC46Addr(vC46Seed(g.mdk, i))) == string(a) {
					w.hp = i
					break
				}
			}
		}
		return
	}
	k = g.r.Intn(100)
	switch {
	case k < 22:
		w.opImport(g.importSeed(w), g.r.Intn(5) == 0)
	case k < 36:
		w.opDelete(g.someAddr(w), g.pw(w, 65))
	case k < 50:
		w.opExport(g.someAddr(w), g.pw(w, 60))
	case k < 57:
		w.opExportMDK(g.pw(w, 50))
	case k < 64:
		w.opSign(g.someAddr(w), g.pw(w, 60))
	case k < 71:
		nm := []byte(fmt.Sprintf("w%d", g.r.Intn(4)))
		w.opRename(nm, g.pw(w, 60))
	case k < 75:
		w.opCheckPw(g.pw(w, 50))
	case k < 79:
		w.opInit(g.pw(w, 60))
	case k < 83:
		w.opReopen()
		if g.r.Intn(4) != 0 {
			if g.r.Intn(3) == 0 {
				w.opInit(g.wrongPw(w.pw))
			}
			w.opInit(w.pw)
		}
	case k < 91:
		i := g.r.Intn(len(g.msigs))
		w.opImportMsig(i, g.msigs[i])
	case k < 97:
		var a []byte
		if len(w.msigs) > 0 && g.r.Intn(4) != 0 {
			a = w.msigs[g.r.Intn(len(w.msigs))]
		} else {
			a = g.r.Bytes(32)
		}
		w.opDeleteMsig(a, g.pw(w, 65))
	default:
		w.opGen(true)
	}
}

func vC46NewWallet(t *testing.T, dir string, n int, name, pw []byte, mdk crypto.MasterDerivationKey) *vC46Wallet {
	wdir := filepath.Join(dir, fmt.Sprintf("w%d", n))
	if err := os.MkdirAll(wdir, 0700); err != nil {
		t.Fatal(err)
	}
	cfg := config.DefaultConfig(wdir)
	cfg.DriverConfig.SQLiteWalletDriverConfig.UnsafeScrypt = true
	cfg.DriverConfig.SQLiteWalletDriverConfig.ScryptParams = config.ScryptParams{ScryptN: 2, ScryptR: 1, ScryptP: 1}
	swd := &SQLiteWalletDriver{}
	if err := swd.InitWithConfig(cfg, logging.Base()); err != nil {
		t.Fatal(err)
	}
	id := []byte(fmt.Sprintf("id%d", n))
	if err := swd.CreateWallet(name, id, pw, mdk); err != nil {
		t.Fatalf("CreateWallet: %v", err)
	}
	w := &vC46Wallet{t: t, swd: swd, id: id, pw: pw, name: name, kinds: map[string]int{}, errs: map[string]int{}}
	w.fetch()
	return w
}

func (w *vC46Wallet) term(mdk []byte) []interface{} {
	return append(vL(vSym("wallet"), w.pw, w.name, mdk), w.steps...)
}

func TestVerifC46(t *testing.T) {
	nCases := vEnvInt("VERIF_C46_CASES", 30)
	nOps := vEnvInt("VERIF_C46_OPS", 45)
	out := vOpen("cases.txt")
	defer out.Close()
	base, err := os.MkdirTemp(os.Getenv("VERIF_OUT"), "c46wallets")
	if err != nil {
		t.Fatal(err)
	}
	defer os.RemoveAll(base)
	r := vNewRand(0xC46)
	kinds := map[string]int{}
	errs := map[string]int{}
	var totalOps, totalWrong, totalGen, blankPw, givenMDK, nulCases, nulPws int

	for c := 0; c < nCases; c++ {
		dir := filepath.Join(base, fmt.Sprintf("c%d", c))
		g := &vC46Gen{r: r, nul: c%5 == 0}
		if g.nul {
			nulCases++
		}
		// wallet 1
		pw1 := r.Bytes(1 + r.Intn(10))
		if r.Intn(6) == 0 {
			pw1 = []byte{}
			blankPw++
		}
		if c == 0 {
			pw1 = []byte("hunter2")
		}
		var given crypto.MasterDerivationKey
		if r.Intn(2) == 0 {
			copy(given[:], r.Bytes(32))
			givenMDK++
		}
		w1 := vC46NewWallet(t, dir, 1, []byte("w0"), pw1, given)
		for i := 0; i < 4; i++ {
			g.foreign = append(g.foreign, r.Bytes(32))
		}
		// operations on the handle before Init
		for i, n := 0, r.Intn(4); i < n; i++ {
			switch r.Intn(6) {
			case 0:
				w1.opInit(g.wrongPw(pw1))
			case 1:
				w1.opGen(false)
			case 2:
				w1.opExportMDK(pw1)
			case 3:
				w1.opCheckPw(g.pw(w1, 50))
			case 4:
				// (may succeed: in a nul case the Init above can have opened the wallet)
				w1.opImport(g.foreign[r.Intn(len(g.foreign))], false)
			default:
				w1.opExport(r.Bytes(32), g.pw(w1, 50))
			}
		}
		if c == 0 {
			// replay of the witness of C46_wrong_password_bytes_refuted on the real code
			nul1, nul2 := []byte("hunter2\x00"), []byte("hunter2\x00\x00")
			w1.opInit([]byte("hunter2x"))
			w1.opInit(nul2)
			if a, ok := w1.opGen(false); ok {
				w1.hp = 1
				w1.opExport(a, nul2)
				w1.opExport(a, pw1)
				w1.opExportMDK(nul2)
				w1.opExportMDK(pw1)
				w1.opRename([]byte("w9"), nul1)
				w1.opDelete(a, nul2)
			}
		}
		w1.opInit(pw1)
		if w1.sw.masterDerivationKey == nil {
			t.Fatalf("Init with the creation password failed")
		}
		g.mdk = append([]byte{}, w1.sw.masterDerivationKey...)
		if given != (crypto.MasterDerivationKey{}) && string(g.mdk) != string(given[:]) {
			t.Fatalf("wallet does not hold the MDK it was created with")
		}
		nW := 2
		if r.Intn(4) == 0 {
			nW = 3
		}
		g.maxIdx = uint64(nOps*nW + 16)
		var pks []crypto.PublicKey
		for i := 0; i < 3; i++ {
			var pk crypto.PublicKey
			copy(pk[:], r.Bytes(32))
			pks = append(pks, pk)
		}
		g.msigs = []vC46Msig{{1, 1, pks[:1]}, {1, 2, pks[:2]}, {1, 2, pks}, {1, 3, pks}, {1, 2, []crypto.PublicKey{pks[1], pks[0]}},
			{2, 1, pks[:2]}, {1, 0, pks[:2]}, {1, 3, pks[:2]}, {1, 1, nil}}
		for i := 0; i < nOps; i++ {
			g.randomOp(w1, 30)
		}
		// make sure the handle is initialised, then export the MDK for the restore
		w1.opInit(pw1)
		exported, err := w1.opExportMDK(pw1)
		if err != nil {
			t.Fatalf("ExportMasterDerivationKey with the right password: %v", err)
		}
		wallets := []*vC46Wallet{w1}
		mdks := [][]byte{g.mdk}
		for n := 2; n <= nW; n++ {
			pw := r.Bytes(1 + r.Intn(10))
			w := vC46NewWallet(t, dir, n, []byte("w0"), pw, exported)
			if r.Intn(3) == 0 {
				w.opGen(false)
			}
			w.opInit(pw)
			mdks = append(mdks, append([]byte{}, w.sw.masterDerivationKey...))
			// some imports first: keys the original generated / will generate, and foreign ones
			for i, k := 0, r.Intn(5); i < k; i++ {
				if r.Intn(3) == 0 {
					w.opImport(g.foreign[r.Intn(len(g.foreign))], false)
				} else {
					w.opImport(vC46Seed(g.mdk, 1+uint64(r.Intn(int(w1.hp)+3))), false)
				}
			}
			for i := 0; i < nOps && (w.hp <= w1.hp || i < nOps/3); i++ {
				g.randomOp(w, 60)
			}
			wallets = append(wallets, w)
		}
		// tables
		ktab := vL(vSym("ktab"))
		dtab := vL(vSym("dtab"))
		for i := uint64(1); i <= g.maxIdx; i++ {
			s := vC46Seed(g.mdk, i)
			dtab = append(dtab, s)
			ktab = append(ktab, vL(s, vC46Addr(s)))
		}
		for _, s := range g.foreign {
			ktab = append(ktab, vL(s, vC46Addr(s)))
		}
		mtab := vL(vSym("mtab"))
		for i, m := range g.msigs {
			if a, ok := vC46MsigAddr(m); ok {
				mtab = append(mtab, vL(i, a))
			} else {
				mtab = append(mtab, vL(i, 0))
			}
		}
		line := vL(vSym("c46"), g.mdk, ktab, dtab, mtab)
		for i, w := range wallets {
			line = append(line, w.term(mdks[i]))
			totalOps += len(w.steps)
			for k, v := range w.kinds {
				kinds[k] += v
			}
			for k, v := range w.errs {
				errs[k] += v
			}
			totalGen += w.kinds["gen"] - w.errs["nomnemonic"]
		}
		totalWrong += g.wrong
		nulPws += g.nulPws
		out.Line(vT(line...))
		os.RemoveAll(dir)
	}
	vStats(map[string]interface{}{
		"cases": nCases, "ops_per_wallet": nOps, "operations": totalOps, "wrong_password_ops": totalWrong, "generate_calls": totalGen,
		"op_kinds": kinds, "error_classes": errs, "blank_password_wallets": blankPw, "given_mdk_wallets": givenMDK,
		"cases_with_nul_padded_passwords": nulCases, "nul_padded_password_ops": nulPws,
	})
}
