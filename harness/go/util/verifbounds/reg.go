//go:build verif

// Package verifbounds is a tiny registry used only by the C40/C41 verification harness
// (added to the build through `go build -overlay`; it does not exist in the repository).
// Every package that declares msgp allocbounds gets a generated, overlay-only file that
// registers the *run-time value* of each allocbound expression written in that package
// (struct tags `allocbound=EXPR` and `//msgp:allocbound T EXPR` directives), so that the
// schema translator can turn the declared bounds into numbers without re-implementing
// constant evaluation.
package verifbounds

// Exprs maps package path -> allocbound expression text -> thunk evaluating that expression.
// (Thunks, because config/bounds variables are assigned by package config's init(), which may
// run after the registering package's init().)
var Exprs = map[string]map[string]func() int{}

// Directives maps package path -> type name -> the text of its //msgp:allocbound directive.
var Directives = map[string]map[string]string{}

// Reg registers the evaluated expressions of one package.
func Reg(pkg string, m map[string]func() int) {
	if Exprs[pkg] == nil {
		Exprs[pkg] = map[string]func() int{}
	}
	for k, v := range m {
		Exprs[pkg][k] = v
	}
}

// Dir registers the //msgp:allocbound directives of one package.
func Dir(pkg string, m map[string]string) {
	if Directives[pkg] == nil {
		Directives[pkg] = map[string]string{}
	}
	for k, v := range m {
		Directives[pkg][k] = v
	}
}
