#!/bin/bash
# AVM table translator driver (C31, C34): gen.sh <VERIF> <REPO> <OUT> <WORK>
# Runs TestVerifAvmGen (harness/go/data/transactions/logic/zz_verif_avmtables_test.go) inside the
# real package data/transactions/logic of <REPO> through a go build overlay (the repository is
# not modified) and writes the Coq tables to <OUT>.
set -euo pipefail
VERIF=$1; REPO=$2; OUT=$3; WORK=$4
P=data/transactions/logic
mkdir -p "$WORK/genov"
cat > "$WORK/genov/overlay.json" <<EOJ
{"Replace": {"$REPO/$P/zz_verif_avmtables_test.go": "$VERIF/harness/go/$P/zz_verif_avmtables_test.go"}}
EOJ
cd "$REPO"
VERIF_GEN_OUT="$OUT" go test -tags verif -overlay "$WORK/genov/overlay.json" -vet=off -count=1 \
  -run '^TestVerifAvmGen$' ./$P/
test -s "$OUT"
