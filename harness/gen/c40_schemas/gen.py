#!/usr/bin/env python3
"""C40/C41 schema translator driver:  gen.py <VERIF> <REPO> <OUT> <WORK>

1. Scans every package directory of <REPO> that has a msgp_gen.go for allocbound
   expressions (struct tags `allocbound=EXPR`, directives `//msgp:allocbound T EXPR[,EXPR]`)
   and writes, per package, an overlay-only file `zz_verif_bounds.go` (build tag `verif`) whose
   init() registers the RUN-TIME VALUE of every such expression (and the directive texts) in
   util/verifbounds (also overlay-only).  The expressions are copied verbatim, so the numbers
   are whatever the running code computes (config/bounds are set from the consensus table).
2. Runs TestVerifC40Gen (harness/go/agreement/zz_verif_c40_test.go) inside the real package
   `agreement` through a go build overlay; the test walks reflect.Type + codec tags of the root
   types and prints coq/gen/Schemas.v to <OUT> and a JSON side table (<OUT>.json: bounds by
   package/expression, used by the harness runs to build bound / bound+1 instances).
The repository is not modified.
"""
import os, re, sys, json, subprocess

VERIF, REPO, OUT, WORK = sys.argv[1:5]
MOD = "github.com/algorand/go-algorand"
ovdir = os.path.join(WORK, "genov")
os.makedirs(ovdir, exist_ok=True)
replace = {}

TAG_RE = re.compile(r'allocbound=([^,"`\s]+)')
DIR_RE = re.compile(r'^//msgp:allocbound\s+(\S+)\s+(\S+)\s*$', re.M)
IMP_RE = re.compile(r'^\s*(?:import\s+)?(?:([A-Za-z_][A-Za-z0-9_]*)\s+)?"([^"]+)"\s*$', re.M)
QUAL_RE = re.compile(r'\b([A-Za-z_][A-Za-z0-9_]*)\.[A-Za-z_]')


def scan(d):
    rel = os.path.relpath(d, REPO)
    pkgname = None
    exprs = {}     # expr -> set(import paths)
    directives = {}
    # the generated code uses the same expressions, so its import block resolves every qualifier
    genimports = {}
    gp = os.path.join(d, "msgp_gen.go")
    if os.path.exists(gp):
        gsrc = open(gp, errors="replace").read()
        head = gsrc[:gsrc.find("\nfunc ")] if "\nfunc " in gsrc else gsrc
        for m3 in IMP_RE.finditer(head):
            alias, path = m3.group(1), m3.group(2)
            genimports[alias or path.rsplit("/", 1)[-1]] = path
    for fn in sorted(os.listdir(d)):
        if not fn.endswith(".go") or fn.endswith("_test.go") or fn == "msgp_gen.go" or fn.startswith("zz_verif"):
            continue
        src = open(os.path.join(d, fn), errors="replace").read()
        m = re.search(r'^package\s+(\w+)', src, re.M)
        if not m:
            continue
        if re.search(r'^//go:build\s+ignore', src, re.M):
            continue
        pkgname = pkgname or m.group(1)
        found = []
        for m2 in TAG_RE.finditer(src):
            found.append(m2.group(1))
        for m2 in DIR_RE.finditer(src):
            directives[m2.group(1)] = m2.group(2)
            found += m2.group(2).split(",")
        if not found:
            continue
        imports = {}
        for m3 in IMP_RE.finditer(src):
            alias, path = m3.group(1), m3.group(2)
            imports[alias or path.rsplit("/", 1)[-1]] = path
        for e in found:
            if e == "-" or e == "":
                continue
            need = set()
            for q in QUAL_RE.findall(e):
                if q in imports:
                    need.add((q, imports[q]))
                elif q in genimports:
                    need.add((q, genimports[q]))
                else:
                    need.add((q, None))
            exprs.setdefault(e, set()).update(need)
    return rel, pkgname, exprs, directives


n_expr = 0
for root, dirs, files in os.walk(REPO):
    dirs[:] = [x for x in dirs if not x.startswith(".") and x not in ("node_modules", "libsodium-fork", "tmp")]
    if "msgp_gen.go" not in files:
        continue
    rel, pkgname, exprs, directives = scan(root)
    if not pkgname or (not exprs and not directives):
        continue
    imps = {}
    ok_exprs = []
    for e, need in sorted(exprs.items()):
        if any(p is None for _, p in need):
            continue   # unresolved qualifier: leave unregistered; the translator reports it if it is needed
        for q, p in need:
            imps[q] = p
        ok_exprs.append(e)
    lines = ["//go:build verif", "", "package %s" % pkgname, "", "import ("]
    lines.append('\tverifbounds "%s/util/verifbounds"' % MOD)
    for q, p in sorted(imps.items()):
        if p.rsplit("/", 1)[-1] == q:
            lines.append('\t"%s"' % p)
        else:
            lines.append('\t%s "%s"' % (q, p))
    lines += [")", "", "func init() {", '\tverifbounds.Reg("%s/%s", map[string]func() int{' % (MOD, rel)]
    for e in ok_exprs:
        lines.append('\t\t%s: func() int { return int(%s) },' % (json.dumps(e), e))
        n_expr += 1
    lines += ["\t})", '\tverifbounds.Dir("%s/%s", map[string]string{' % (MOD, rel)]
    for t, e in sorted(directives.items()):
        lines.append('\t\t%s: %s,' % (json.dumps(t), json.dumps(e)))
    lines += ["\t})", "}", ""]
    dst = os.path.join(ovdir, rel.replace("/", "_") + "_zz_verif_bounds.go")
    open(dst, "w").write("\n".join(lines))
    replace[os.path.join(REPO, rel, "zz_verif_bounds.go")] = dst

# static overlay files: registry package, harness/translator test file, shared util
replace[os.path.join(REPO, "util/verifbounds/reg.go")] = os.path.join(VERIF, "harness/go/util/verifbounds/reg.go")
replace[os.path.join(REPO, "agreement/zz_verif_c40_test.go")] = os.path.join(VERIF, "harness/go/agreement/zz_verif_c40_test.go")
util = open(os.path.join(VERIF, "harness/go/_shared/util.go.tmpl")).read().replace("__PKG__", "agreement")
up = os.path.join(ovdir, "agreement_zz_verif_util_test.go")
open(up, "w").write(util)
replace[os.path.join(REPO, "agreement/zz_verif_util_test.go")] = up
ovp = os.path.join(ovdir, "overlay.json")
json.dump({"Replace": replace}, open(ovp, "w"), indent=1)

env = dict(os.environ)
env["VERIF_GEN_OUT"] = OUT
env["GOFLAGS"] = "-mod=mod"
env["GOPROXY"] = "off"
env.pop("GOTOOLCHAIN", None)
env.pop("GOSUMDB", None)
p = subprocess.run(["go", "test", "-tags", "verif", "-overlay", ovp, "-vet=off", "-count=1", "-run", "^TestVerifC40Gen$", "./agreement/"],
                   cwd=REPO, env=env, stdout=subprocess.PIPE, stderr=subprocess.STDOUT, text=True)
sys.stdout.write(p.stdout[-6000:])
if p.returncode != 0:
    sys.exit(p.returncode)
if not (os.path.exists(OUT) and os.path.getsize(OUT) > 0):
    print("translator produced no output")
    sys.exit(1)
print("registered %d allocbound expressions in %d packages" % (n_expr, len(replace) - 3))
