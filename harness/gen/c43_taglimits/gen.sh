#!/bin/bash
# C43 translator driver: gen.sh <VERIF> <REPO> <OUT> <WORK>
# Runs TestVerifC43Gen (harness/go/network/zz_verif_c43_test.go) inside the real package
# `network` of <REPO> through a go build overlay (the repository is not modified) and writes
# the Coq table to <OUT>.  The overlay holds the same two files as the harness run, so the
# package is compiled once.
set -euo pipefail
VERIF=$1; REPO=$2; OUT=$3; WORK=$4
mkdir -p "$WORK/genov"
sed 's/__PKG__/network/g' "$VERIF/harness/go/_shared/util.go.tmpl" > "$WORK/genov/zz_verif_util_test.go"
cat > "$WORK/genov/overlay.json" <<EOJ
{"Replace": {"$REPO/network/zz_verif_c43_test.go": "$VERIF/harness/go/network/zz_verif_c43_test.go",
             "$REPO/network/zz_verif_util_test.go": "$WORK/genov/zz_verif_util_test.go"}}
EOJ
cd "$REPO"
VERIF_GEN_OUT="$OUT" go test -tags verif -overlay "$WORK/genov/overlay.json" -vet=off -count=1 \
  -run '^TestVerifC43Gen$' ./network/
test -s "$OUT"
