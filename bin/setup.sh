#!/bin/bash
# setup_cmd: build everything from files on disk (offline): libsodium objects, generated Coq
# tables, the whole Coq development (full .vo build), the extracted runners, and warm the Go
# build cache for the harness packages.
set -uo pipefail
cd /verif
export GOFLAGS=-mod=mod GOPROXY=off
unset GOTOOLCHAIN GOSUMDB || true
mkdir -p build
bin/ensure_libsodium.sh build || exit 1
python3 bin/setup_all.py
