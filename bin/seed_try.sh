#!/bin/bash
# seed_try.sh <name> <property> <patch.diff> : run a property's quick check against a scratch
# worktree of /repo with the patch applied (VERIF_REPO), print the outcome, clean up.
set -u
name=$1; prop=$2; patch=$3
wt=/tmp/seedwt_$name; bd=/tmp/seedbuild_$name
git -C /repo worktree remove --force $wt >/dev/null 2>&1; rm -rf $wt $bd
git -C /repo worktree add --detach $wt HEAD -q || exit 2
if ! git -C $wt apply $patch; then echo "PATCH-FAILED $name"; git -C /repo worktree remove --force $wt; exit 2; fi
out=$(VERIF_REPO=$wt VERIF_BUILD=$bd /verif/bin/check $prop 2>&1)
rc=$?
echo "$out" | grep -E "VIOLATION|KNOWN-FINDING|quick:" | cut -c1-300
echo "SEED-RESULT name=$name property=$prop exit=$rc"
rp=$(echo "$out" | grep -o "replay=[^ ]*" | head -1 | cut -d= -f2)
if [ -n "$rp" ] && [ -f "$rp" ]; then mkdir -p /verif/seeded/$name; cp "$rp" /verif/seeded/$name/replay_found.txt; rm -f "$rp"; fi
git -C /repo worktree remove --force $wt; rm -rf $bd
exit 0
