#!/usr/bin/env python3
"""Used by setup.sh: regenerate coq/gen, build all Coq files, all runners, and pre-compile harness test binaries."""
import os, sys, glob, subprocess, importlib.util, json
sys.path.insert(0, "/verif/bin")
VERIF = "/verif"
import importlib.machinery
chk = importlib.machinery.SourceFileLoader("chk", "/verif/bin/check").load_module()
ok = True
with chk.Sodium():
    cfgs = {}
    for p in sorted(glob.glob(os.path.join(VERIF, "checks", "C*.py"))):
        pid = os.path.basename(p)[:-3]
        ready = set(open(os.path.join(VERIF, "checks", "READY.txt")).read().split())
        if pid not in ready:
            continue
        cfg, _ = chk.load_config(pid)
        if cfg.get("not_applicable"):
            continue
        cfgs[pid] = cfg
    # translators
    done = set()
    for pid, cfg in cfgs.items():
        for g in cfg.get("gen", []):
            if g["out"] in done:
                continue
            done.add(g["out"])
            outp = os.path.join(chk.BUILD, "setup_gen_" + os.path.basename(g["out"]))
            cmd = g["cmd"].format(VERIF=VERIF, REPO=chk.REPO, OUT=outp, WORK=chk.BUILD)
            rc, out, dt = chk.run(cmd, cwd=g.get("cwd", chk.REPO).format(VERIF=VERIF, REPO=chk.REPO), env=chk.goenv(), timeout=1800)
            print("gen", g["out"], rc, "%.0fs" % dt, flush=True)
            if rc == 0 and os.path.exists(outp):
                chk.write_if_changed(os.path.join(chk.COQ, g["out"]), open(outp).read())
            else:
                ok = False
                print(out[-2000:])
    chk.regen_makefile()
    targets = []
    for pid, cfg in cfgs.items():
        targets.append(cfg["props"][:-2] + ".vo")
        if cfg.get("runner"):
            targets.append(cfg["runner"]["module"].replace("Verif.", "").replace(".", "/") + ".vo")
    rc, out, dt = chk.run("make -j16 -k " + " ".join(sorted(set(targets))), cwd=chk.COQ, timeout=7200)
    print("coq make (registered checks) rc=%d %.0fs" % (rc, dt), flush=True)
    if rc != 0:
        ok = False
        print(out[-5000:])
    for pid, cfg in cfgs.items():
        if cfg.get("runner"):
            rc, out, dt = chk.run([os.path.join(VERIF, "bin/build_runner.sh"), pid, cfg["runner"]["module"], cfg["runner"].get("ident", "check")], timeout=900)
            print("runner", pid, rc, "%.0fs" % dt, flush=True)
            if rc != 0:
                ok = False
                print(out[-2000:])
    # warm the go test build of harness packages (compile only)
    pkgs = sorted({h["pkg"] for cfg in cfgs.values() for h in cfg.get("harness", [])})
    if pkgs:
        rc, out, dt = chk.run(["go", "test", "-vet=off", "-count=1", "-run", "^$"] + pkgs, cwd=chk.REPO, env=chk.goenv(), timeout=3600)
        print("go warm rc=%d %.0fs" % (rc, dt), flush=True)
sys.exit(0 if ok else 1)
