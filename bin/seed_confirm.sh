#!/bin/bash
# seed_confirm.sh <name> <pkg dir> <demo dest filename> <demo -run regex> [pkgtest-run-regex]
# Confirms a seeded mutation independently: demo passes without the patch, fails with it;
# the package's own tests pass with the patch. Writes seeded/<name>/confirm.txt
set -u
name=$1; pkg=$2; dest=$3; rx=$4; pkgrx=${5:-.}
d=/verif/seeded/$name; wt=/tmp/seedcf_$name
export GOFLAGS=-mod=mod GOPROXY=off; unset GOTOOLCHAIN GOSUMDB
git -C /repo worktree remove --force $wt >/dev/null 2>&1; rm -rf $wt
git -C /repo worktree add --detach $wt HEAD -q || exit 2
mkdir -p $wt/crypto/libs && cp -r /repo/crypto/libs/. $wt/crypto/libs/
cp $d/demo_test.go $wt/$pkg/$dest
{
echo "base: $(git -C /repo log --format=%h -1)"
cd $wt
echo "== demo WITHOUT patch"; timeout 1500 go test -vet=off -count=1 -run "$rx" ./$pkg/ 2>&1 | tail -3
git apply $d/patch.diff && echo "== patch applied"
echo "== build"; go build ./... 2>&1 | tail -3
echo "== demo WITH patch"; timeout 1500 go test -vet=off -count=1 -run "$rx" ./$pkg/ 2>&1 | grep -E "^(--- FAIL|FAIL|ok|panic)" | head -5
rm -f $wt/$pkg/$dest
echo "== package tests WITH patch (-run '$pkgrx')"; timeout 2400 go test -vet=off -count=1 -run "$pkgrx" ./$pkg/ 2>&1 | tail -2
} > $d/confirm.txt 2>&1
cd /; git -C /repo worktree remove --force $wt
tail -12 $d/confirm.txt
