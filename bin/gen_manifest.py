#!/usr/bin/env python3
"""Regenerates /verif/MANIFEST.json from checks/*.py (one CONFIG per claimed property)."""
import os, json, glob, importlib.util
VERIF = os.environ.get("VERIF_ROOT", "/verif")
props = [json.loads(l) for l in open(os.path.join(VERIF, "properties.jsonl")) if l.strip()]
checks, na = [], []
hooks_commits = []
hp = os.path.join(VERIF, "HOOK_COMMITS.txt")
if os.path.exists(hp):
    hooks_commits = [l.split()[0] for l in open(hp) if l.strip() and not l.startswith("#")]
for p in props:
    pid = p["id"]
    path = os.path.join(VERIF, "checks", pid + ".py")
    ready = set(open(os.path.join(VERIF, "checks", "READY.txt")).read().split())
    if not os.path.exists(path) or pid not in ready:
        na.append({"property_id": pid, "reason": "no check registered yet: model/proof/harness for this property are not built (build order in DESIGN.md section 7); not claimed"})
        continue
    spec = importlib.util.spec_from_file_location("cfg_" + pid, path)
    m = importlib.util.module_from_spec(spec); spec.loader.exec_module(m)
    c = m.CONFIG
    if c.get("not_applicable"):
        na.append({"property_id": pid, "reason": c["not_applicable"]})
        continue
    checks.append({
        "property_id": pid,
        "quick_cmd": "bin/check %s --tier quick" % pid,
        "thorough_cmd": "bin/check %s --tier thorough" % pid,
        "evidence_file": "/verif/evidence/%s.json" % pid,
        "replay_cmd_template": "bin/check %s --replay {path}" % pid,
        "engine": "coq-proof+correspondence",
        "level_claimed": {"category": c.get("level", "proof"),
                          "text": c.get("level_text", c.get("explanation", "")),
                          "design_ref": c.get("design_ref", "DESIGN.md section 4 (%s)" % pid)},
        "level_note": c.get("level_note", "; ".join(c.get("assumptions", []) + c.get("trusted_base", []))),
        "technique": c.get("technique", "machine-checked proof in Coq 8.16 about an executable Gallina model; model tied to the Go code by a differential correspondence run (extracted OCaml runner vs in-package Go harness)"),
    })
man = {
    "version": 1,
    "setup_cmd": "bin/setup.sh",
    "hooks": {
        "guard": "verif (Go build tag)",
        "enable": "go test -tags verif -overlay /verif/build/run/<ID>/overlay.json (in-package zz_verif_*_test.go harness files are injected by overlay; /repo sources are not modified)",
        "baseline_off_cmd": "bin/baseline_off.sh",
        "source_commits": hooks_commits,
        "add_only": True,
    },
    "engines": [{"name": "coq-proof+correspondence", "path": "bin/check",
                 "serves_properties": [c["property_id"] for c in checks],
                 "kind_free_text": "Coq 8.16.1 theorems over executable Gallina models (coq/), extracted OCaml runner, Go harnesses compiled into the real packages via -overlay, translators regenerating coq/gen/*.v from the current /repo build"}],
    "checks": checks,
    "notes": "See DESIGN.md. Findings are listed in KNOWN_FINDINGS.txt. libsodium is hand-built by bin/ensure_libsodium.sh (no autotools in the sandbox) and installed into the git-ignored /repo/crypto/libs only while a check runs.",
    "not_applicable": na,
}
json.dump(man, open(os.path.join(VERIF, "MANIFEST.json"), "w"), indent=1)
print("claimed %d, not claimed %d" % (len(checks), len(na)))
