#!/bin/bash
# Runs the repository's pinned baseline command with the guard OFF (no -tags verif, no overlay)
# on /repo as it is, after making sure our check-time libsodium copy is not installed.
set -u
/verif/bin/ensure_libsodium.sh remove || true
cmd=$(python3 -c "import json;print(json.load(open('/root/.vp/BASELINE.json'))['cmd'])")
if [ -f /w/out/gomods.txt ]; then
  bash -c "$cmd"
else
  export GOFLAGS=-mod=mod GOPROXY=off
  cd /repo && go test -json -vet=off -count=1 -timeout 25m ./...
fi
