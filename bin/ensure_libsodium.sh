#!/bin/bash
# Build the vendored libsodium fork with plain gcc (no autotools in the sandbox) under
# /verif/build/libsodium and install archive + headers into /repo/crypto/libs/linux/amd64
# (a git-ignored path).  Idempotent; rebuilds when the fork's sources changed.
#   ensure_libsodium.sh build     build objects/archive only (under /verif/build)
#   ensure_libsodium.sh install   build if needed + install into /repo (marker .verif-installed)
#   ensure_libsodium.sh remove    remove the installed copy if the marker is ours
set -euo pipefail
VERIF=${VERIF_ROOT:-/verif}
REPO=${VERIF_REPO:-/repo}
B=$VERIF/build/libsodium
SRC=$REPO/crypto/libsodium-fork/src/libsodium
DEST=$REPO/crypto/libs/linux/amd64
mode=${1:-install}

fingerprint() {
  (cd "$SRC" && find . -type f \( -name '*.c' -o -name '*.h' -o -name '*.in' \) -print0 | sort -z | xargs -0 sha256sum | sha256sum | cut -d' ' -f1)
}

build() {
  mkdir -p "$B"
  local fp; fp=$(fingerprint)
  if [ -f "$B/libsodium.a" ] && [ -f "$B/fingerprint" ] && [ "$(cat "$B/fingerprint")" = "$fp" ]; then return 0; fi
  rm -rf "$B/src" "$B/obj" "$B/libsodium.a"
  mkdir -p "$B/src" "$B/obj"
  cp -r "$SRC/." "$B/src/"
  sed -e 's/@VERSION@/1.0.16/' -e 's/@SODIUM_LIBRARY_VERSION_MAJOR@/10/' \
      -e 's/@SODIUM_LIBRARY_VERSION_MINOR@/2/' -e 's/@SODIUM_LIBRARY_MINIMAL_DEF@//' \
      "$B/src/include/sodium/version.h.in" > "$B/src/include/sodium/version.h"
  local flags="-O2 -fPIC -I $B/src/include/sodium -I $B/src/include -DCONFIGURED=1 -DHAVE_TI_MODE=1 -DNATIVE_LITTLE_ENDIAN=1 -DHAVE_WEAK_SYMBOLS=1 -D_GNU_SOURCE -DHAVE_MMAP -DHAVE_MLOCK -DHAVE_MPROTECT -DHAVE_POSIX_MEMALIGN -DHAVE_GETPID -DHAVE_NANOSLEEP -DHAVE_SYS_MMAN_H -DHAVE_SYS_RANDOM_H -DHAVE_GETRANDOM -w"
  (cd "$B/src" && find . -name '*.c' | sort) > "$B/files.txt"
  local i=0
  # compile in parallel
  export B flags
  cat "$B/files.txt" | xargs -P 16 -I{} sh -c 'f="{}"; o=$(echo "$f" | sed -e "s#^\./##" -e "s#/#_#g" -e "s#\.c\$#.o#"); gcc $flags -c "$B/src/$f" -o "$B/obj/$o"'
  ar rcs "$B/libsodium.a" "$B"/obj/*.o
  echo "$fp" > "$B/fingerprint"
}

install_() {
  build
  if [ -f "$DEST/lib/libsodium.a" ] && cmp -s "$B/libsodium.a" "$DEST/lib/libsodium.a"; then return 0; fi
  if [ -f "$DEST/lib/libsodium.a" ] && [ ! -f "$DEST/.verif-installed" ]; then
    # somebody else's build (e.g. the repository's own make): use it, do not touch
    return 0
  fi
  mkdir -p "$DEST/lib" "$DEST/include/sodium"
  cp "$B/libsodium.a" "$DEST/lib/libsodium.a"
  cp "$B/src/include/sodium.h" "$DEST/include/sodium.h"
  cp "$B"/src/include/sodium/*.h "$DEST/include/sodium/"
  touch "$DEST/.verif-installed"
}

remove_() {
  if [ -f "$DEST/.verif-installed" ]; then
    rm -rf "$REPO/crypto/libs"
  fi
}

case "$mode" in
  build) build ;;
  install) install_ ;;
  remove) remove_ ;;
  *) echo "usage: $0 build|install|remove" >&2; exit 2 ;;
esac
