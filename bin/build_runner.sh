#!/bin/bash
# build_runner.sh <ID> <Coq module of the check function, e.g. Verif.model.OverflowSpec> [check ident]
# Extracts <module>.<ident> (default "check") to OCaml (ExtrOcamlBasic only; N/Z/positive/
# string stay the extracted inductives) and links it with the generic line-protocol runner.
set -euo pipefail
VERIF=${VERIF_ROOT:-/verif}
ID=$1; MOD=$2; IDENT=${3:-check}
D=${VERIF_BUILD:-$VERIF/build}/ocaml/$ID
mkdir -p "$D"
cd "$D"
cat > ext.v <<EOV
Require Import ExtrOcamlBasic.
From Coq Require Import NArith.
Require ${MOD}.
Definition check := ${MOD}.${IDENT}.
Extraction "model.ml" check N.add N.mul.
EOV
# rebuild only when the extracted code or runner changed
coqc -Q $VERIF/coq/lib Verif.lib -Q $VERIF/coq/model Verif.model -Q $VERIF/coq/gen Verif.gen ext.v > extract.log 2>&1 || { cat extract.log; exit 1; }
sum=$(cat model.ml model.mli $VERIF/ocaml/runner.ml | sha256sum | cut -d' ' -f1)
if [ -x runner ] && [ -f runner.sum ] && [ "$(cat runner.sum)" = "$sum" ]; then exit 0; fi
cp $VERIF/ocaml/runner.ml runner.ml
ocamlfind ocamlopt -O3 -w -a model.mli model.ml runner.ml -o runner 2> ocaml.log || ocamlfind ocamlopt -w -a model.mli model.ml runner.ml -o runner 2> ocaml.log || { cat ocaml.log; exit 1; }
echo "$sum" > runner.sum
