(* Generic line-protocol runner: one term per input line -> Model.check -> one verdict
   term per output line.  The only hand-written OCaml in the trusted base: a tokenizer,
   decimal/hex conversion into the extracted Coq [positive]/[Z]/[N], and a printer. *)
module OS = Stdlib.String
module OL = Stdlib.List
module OB = Stdlib.Buffer
type ostring = string
open Model

let rec pos_of_int_bits (bits : bool list) : positive =
  (* bits: most-significant first, first bit is true *)
  match bits with
  | [] -> XH
  | _ -> OL.fold_left (fun acc b -> if b then XI acc else XO acc) XH (OL.tl bits)

(* big decimal -> N using extracted arithmetic *)
let n_of_small (i : int) : n =
  if i = 0 then N0 else
  let rec bits k acc = if k = 0 then acc else bits (k lsr 1) ((k land 1 = 1) :: acc) in
  Npos (pos_of_int_bits (bits i []))

let n10 = n_of_small 10

let n_of_decimal (s : ostring) : n =
  let acc = ref N0 in
  OS.iter (fun c ->
    let d = Char.code c - 48 in
    if d < 0 || d > 9 then failwith ("bad digit in " ^ s);
    acc := N.add (N.mul !acc n10) (n_of_small d)) s;
  !acc

let z_of_decimal (s : ostring) : z =
  let neg = OS.length s > 0 && s.[0] = '-' in
  let body = if neg then OS.sub s 1 (OS.length s - 1) else s in
  match n_of_decimal body with
  | N0 -> Z0
  | Npos p -> if neg then Zneg p else Zpos p

let hexval c =
  match c with
  | '0'..'9' -> Char.code c - 48
  | 'a'..'f' -> Char.code c - 87
  | 'A'..'F' -> Char.code c - 55
  | _ -> failwith "bad hex"

let bytes_of_hex (s : ostring) : n list =
  let l = OS.length s in
  if l mod 2 <> 0 then failwith "odd hex";
  let rec go i acc = if i < 0 then acc else
    go (i - 2) (n_of_small (16 * hexval s.[i] + hexval s.[i+1]) :: acc) in
  go (l - 2) []

(* Coq strings extract (ExtrOcamlBasic only) to the inductive String/EmptyString over
   Ascii of 8 bools *)
let ascii_of_char (c : char) : ascii =
  let k = Char.code c in
  let b i = (k lsr i) land 1 = 1 in
  Ascii (b 0, b 1, b 2, b 3, b 4, b 5, b 6, b 7)

let coqstring_of (s : ostring) : string =
  let r = ref EmptyString in
  for i = OS.length s - 1 downto 0 do r := String (ascii_of_char s.[i], !r) done;
  !r

let char_of_ascii (Ascii (b0,b1,b2,b3,b4,b5,b6,b7)) =
  let v b i = if b then 1 lsl i else 0 in
  Char.chr (v b0 0 + v b1 1 + v b2 2 + v b3 3 + v b4 4 + v b5 5 + v b6 6 + v b7 7)

let ocaml_of_coqstring (s : string) : ostring =
  let buf = OB.create 16 in
  let rec go = function EmptyString -> () | String (a, r) -> OB.add_char buf (char_of_ascii a); go r in
  go s; OB.contents buf

(* ---- tokenizer / parser ---- *)
let parse_line (s : ostring) : term =
  let n = OS.length s in
  let pos = ref 0 in
  let skip () = while !pos < n && (s.[!pos] = ' ' || s.[!pos] = '\t' || s.[!pos] = '\r') do incr pos done in
  let token () =
    let st = !pos in
    while !pos < n && (match s.[!pos] with ' ' | '\t' | '(' | ')' | '\r' -> false | _ -> true) do incr pos done;
    OS.sub s st (!pos - st) in
  let rec term () : term =
    skip ();
    if !pos >= n then failwith "eof";
    match s.[!pos] with
    | '(' -> incr pos; TL (items [])
    | ')' -> failwith "unexpected )"
    | '#' -> incr pos; let t = token () in TB (bytes_of_hex t)
    | '-' | '0'..'9' -> TZ (z_of_decimal (token ()))
    | _ -> TS (coqstring_of (token ()))
  and items acc =
    skip ();
    if !pos >= n then failwith "eof in list";
    if s.[!pos] = ')' then (incr pos; OL.rev acc)
    else let t = term () in items (t :: acc)
  in
  let t = term () in
  skip ();
  if !pos < n then failwith "trailing input";
  t

(* ---- printer ---- *)
let rec int_list_of_pos (p : positive) : bool list = (* least significant first *)
  match p with XH -> [true] | XO q -> false :: int_list_of_pos q | XI q -> true :: int_list_of_pos q

(* decimal printing of arbitrary-size positives: repeated doubling on a decimal digit array *)
let decimal_of_pos (p : positive) : ostring =
  let bits = OL.rev (int_list_of_pos p) in (* msb first *)
  let digits = ref [0] in (* least significant first *)
  OL.iter (fun b ->
    let carry = ref (if b then 1 else 0) in
    digits := OL.map (fun d -> let v = d * 2 + !carry in carry := v / 10; v mod 10) !digits;
    if !carry > 0 then digits := !digits @ [!carry]) bits;
  OS.concat "" (OL.rev_map string_of_int !digits)

let small_of_n (x : n) : int =
  match x with N0 -> 0 | Npos p ->
    OL.fold_right (fun b acc -> acc * 2 + (if b then 1 else 0)) (int_list_of_pos p) 0

let rec print_term (b : OB.t) (t : term) : unit =
  match t with
  | TZ Z0 -> OB.add_char b '0'
  | TZ (Zpos p) -> OB.add_string b (decimal_of_pos p)
  | TZ (Zneg p) -> OB.add_char b '-'; OB.add_string b (decimal_of_pos p)
  | TB l -> OB.add_char b '#'; OL.iter (fun x -> OB.add_string b (Printf.sprintf "%02x" (small_of_n x land 255))) l
  | TS s -> OB.add_string b (ocaml_of_coqstring s)
  | TL l -> OB.add_char b '(';
      OL.iteri (fun i x -> if i > 0 then OB.add_char b ' '; print_term b x) l;
      OB.add_char b ')'

let () =
  let buf = OB.create 4096 in
  (try
    while true do
      let line = input_line stdin in
      if OS.length line > 0 then begin
        OB.clear buf;
        (match (try Some (parse_line line) with Failure _ | Invalid_argument _ -> None) with
         | None -> OB.add_string buf "(4)"
         | Some t -> print_term buf (check t));
        print_string (OB.contents buf); print_newline ()
      end
    done
  with End_of_file -> ())
